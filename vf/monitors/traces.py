"""C12 offline checker over the event log of a metrics-mode run."""


def sections(events):
    """Split the event list into per-Einsum sections starting at beginCollect.
    Events before the first beginCollect form section None."""
    pre, secs, cur = [], [], None
    for kind, data in events:
        if kind == "beginCollect":
            cur = {"prefix": data.get("prefix"), "events": []}
            secs.append(cur)
        elif cur is None:
            pre.append((kind, data))
        else:
            cur["events"].append((kind, data))
    return pre, secs


def check(events, n_einsums, all_loops_ran=True):
    """Returns (problems, stats)."""
    problems = []
    stats = {"sections": 0, "registered": 0, "files_consumed": 0, "consume_pairs": 0,
             "filters": 0, "intersectors": 0, "fed": 0}
    pre, secs = sections(events)
    # nothing collectible may happen before the first beginCollect
    for kind, data in pre:
        if kind in ("loop_enter", "trace", "endCollect", "consumeTrace", "addTraces",
                    "filterTrace", "buffetTraffic", "cacheTraffic", "numIters"):
            problems.append({"kind": "event-before-beginCollect", "event": kind})
            break
    if len(secs) != n_einsums:
        problems.append({"kind": "beginCollect-count", "got": len(secs), "want": n_einsums})
    for si, sec in enumerate(secs):
        stats["sections"] += 1
        prefix = sec["prefix"]
        files = set()          # producible file names
        consumable = set()     # (rank, type)
        nonconsumable = set()
        ended = 0
        first_loop = None
        last_loop_exit = None
        end_pos = None
        isects = {}            # idx -> {"pos", "fed", "fed_in_nest", "queried"}
        depth = 0
        for pos, (kind, d) in enumerate(sec["events"]):
            if kind == "loop_enter":
                if first_loop is None:
                    first_loop = pos
                depth += 1
                if ended:
                    problems.append({"kind": "loop-after-endCollect", "section": prefix})
            elif kind == "loop_exit":
                depth -= 1
                last_loop_exit = pos
            elif kind == "endCollect":
                ended += 1
                end_pos = pos
                if depth != 0:
                    problems.append({"kind": "endCollect-inside-loop", "section": prefix})
            elif kind == "trace":
                stats["registered"] += 1
                if first_loop is not None:
                    problems.append({"kind": "trace-registered-after-loop-start",
                                     "section": prefix, "trace": d})
                if d.get("consumable"):
                    consumable.add((d["rank"], d["type_"]))
                else:
                    nonconsumable.add((d["rank"], d["type_"]))
                    files.add("%s-%s-%s.csv" % (prefix, d["rank"], d["type_"]))
            elif kind == "consumeTrace":
                stats["consume_pairs"] += 1
                if (d["rank"], d["type_"]) not in consumable:
                    problems.append({"kind": "consumeTrace-not-registered-consumable",
                                     "section": prefix, "rank": d["rank"], "type": d["type_"]})
            elif kind == "filterTrace":
                stats["filters"] += 1
                for f in (d["input"], d["filter"]):
                    if f not in files:
                        problems.append({"kind": "filterTrace-input-not-produced",
                                         "section": prefix, "file": f})
                files.add(d["output"])
                if not ended:
                    problems.append({"kind": "dump-before-endCollect", "section": prefix})
            elif kind in ("buffetTraffic", "cacheTraffic"):
                if not ended:
                    problems.append({"kind": "dump-before-endCollect", "section": prefix})
                for key, f in d["traces"].items():
                    stats["files_consumed"] += 1
                    if f not in files:
                        problems.append({"kind": "traffic-trace-not-produced", "section": prefix,
                                         "key": key, "file": f})
            elif kind == "numIters":
                stats["files_consumed"] += 1
                if d["file"] not in files:
                    problems.append({"kind": "numIters-trace-not-produced", "section": prefix,
                                     "file": d["file"]})
            elif kind == "isect_new":
                stats["intersectors"] += 1
                isects[d["idx"]] = {"pos": pos, "fed_in_nest": 0, "fed": 0, "queried": 0,
                                    "before_loops": first_loop is None}
            elif kind == "addTraces":
                i = isects.get(d["idx"])
                if i is None:
                    problems.append({"kind": "addTraces-on-unknown-intersector", "section": prefix})
                else:
                    i["fed"] += 1
                    stats["fed"] += 1
                    if depth > 0 or first_loop is not None and not ended:
                        i["fed_in_nest"] += 1
            elif kind == "getNumIntersects":
                i = isects.get(d["idx"])
                if i is None:
                    problems.append({"kind": "query-of-intersector-not-created-in-section",
                                     "section": prefix})
                else:
                    i["queried"] += 1
        if ended != 1:
            problems.append({"kind": "endCollect-count", "section": prefix, "got": ended})
        if first_loop is not None and end_pos is not None and last_loop_exit is not None and \
                end_pos < last_loop_exit:
            problems.append({"kind": "endCollect-before-last-loop-exit", "section": prefix})
        for idx, i in isects.items():
            if i["queried"]:
                if not i["before_loops"]:
                    problems.append({"kind": "intersector-created-after-loops-began",
                                     "section": prefix})
                if all_loops_ran and i["fed_in_nest"] == 0:
                    problems.append({"kind": "intersector-queried-but-never-fed", "section": prefix})
    return problems, stats
