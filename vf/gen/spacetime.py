"""Spacetime mappings on top of the plain spec classes (C16)."""
import re

from . import einsum as GE, mapping as GM, affine as GA, cascade as GC
from ..monitors import defaults as D


def loop_ranks(spec, e):
    lo = (spec.loop_order or {}).get(e.out.name)
    if lo:
        return list(lo)
    return D.default_loop_order(spec, e)


def flattened_levels(spec, e):
    """Loop ranks that are (levels of) flattened ranks: coord style would do
    tuple arithmetic, which the property does not cover."""
    parts = (spec.partitioning or {}).get(e.out.name) or {}
    flats = []
    for k in parts:
        if k.startswith("("):
            flats.append("".join(x.strip() for x in k[1:-1].split(",")))
    return flats


def add_spacetime(rnd, spec, all_stamped=None, slip=None, only=None, flat_coord=False):
    s = spec.clone()
    st = {}
    tags = []
    for e in s.exprs:
        if only is not None and e.out.name not in only:
            continue
        lo = loop_ranks(s, e)
        if not lo:
            continue
        flats = flattened_levels(s, e)
        stamped = list(lo)
        full = True
        if all_stamped is False or (all_stamped is None and rnd.random() < 0.05 and len(lo) > 1):
            drop = rnd.choice(lo)
            stamped = [r for r in lo if r != drop]
            full = False
        k = rnd.randint(0, len(stamped))
        idx = set(rnd.sample(range(len(stamped)), k))
        space, time = [], []
        for i, r in enumerate(stamped):
            is_flat = any(r.startswith(f) for f in flats)
            style = rnd.choice(["", ".pos", ".coord"]) if (not is_flat or flat_coord) \
                else rnd.choice(["", ".pos"])
            if style == ".coord":
                tags.append("st-coord")
            (space if i in idx else time).append(r + style)
        ent = {"space": space, "time": time}
        if slip is True or (slip is None and rnd.random() < 0.3):
            ent["opt"] = "slip"
            tags.append("st-slip")
        st[e.out.name] = ent
        tags.append("st-all-stamped" if full else "st-partly-stamped")
        if space:
            tags.append("st-space")
    if not st:
        return None
    s.spacetime = st
    s.tags = list(s.tags) + sorted(set(tags)) + ["spacetime"]
    return s


def gen_spacetime(rnd):
    cls = rnd.choice(["plain", "shape", "shape", "occupancy", "flatten", "affine", "cascade"])
    if cls == "plain":
        b, info = GE.gen_plain(rnd)
    elif cls == "shape":
        b0, info = GE.gen_plain(rnd, max_ranks=3)
        b = GM.add_shape_partitioning(rnd, b0, info, ordered=True)
    elif cls in ("occupancy", "flatten"):
        b = None
        for _ in range(20):
            b0, info = GE.gen_plain(rnd, products_only=True, allow_take=False, max_ranks=3)
            b = (GM.add_occupancy if cls == "occupancy" else GM.add_flatten)(rnd, b0, info)
            if b is not None:
                break
        if b is None:
            return None
    elif cls == "affine":
        b, ext, info = GA.gen_affine(rnd, rnd.choice(["S1", "S2", "S3", "S6"]))
        b.tags.append("st-affine")
        b._extents = ext
    else:
        b = GC.gen_cascade(rnd)
    s = add_spacetime(rnd, b)
    if s is None:
        return None
    if hasattr(b, "_extents"):
        s._extents = b._extents
    s.tags.append("st-" + cls)
    return s


def without_spacetime(spec):
    s = spec.clone()
    s.spacetime = None
    if hasattr(spec, "_extents"):
        s._extents = spec._extents
    return s
