"""Model validation against the repository's pinned programs.

Each golden program in tests/integration/*.py (the *text the repository itself
pins*) and each accelerator YAML compiled in plain mode is executed on the
reference model on random inputs and compared with the dense evaluator.  A
failure here means the MODEL no longer matches the pinned programs: checks
that depend on the model then report INCONCLUSIVE, never a violation."""
import glob
import os
import random

from . import run, dense
from .yamlspec import spec_from_yaml, symbolic_sizes

ACCEL = ["sigma", "extensor", "outerspace", "demo", "gamma", "extensor-energy"]


def _one(spec, text, rnd, lo=2, hi=5, density=0.6):
    extents = run.pick_extents(spec, rnd, lo, hi)
    for s in symbolic_sizes(spec):
        spec.syms.setdefault(s, rnd.randint(1, 4))
    scal = {s: rnd.randint(2, 5) for s in spec.scalars()}
    inputs = run.gen_inputs(spec, extents, rnd, density)
    ex = run.execute(text, spec, inputs, extents, scal)
    if not ex.ok:
        return ["exec: " + ex.error]
    return run.result_check(ex, spec, inputs, scal, extents)


def validate(seed=0, reps=3, verbose=False):
    """Returns (n_programs, failures list)."""
    rnd = random.Random(seed)
    fails = []
    n = 0
    integ = os.path.join(run.REPO, "tests", "integration")
    for py in sorted(glob.glob(os.path.join(integ, "*.py"))):
        base = os.path.basename(py)[:-3]
        if base.startswith("test_"):
            continue
        yml = os.path.join(integ, base + ".yaml")
        if not os.path.exists(yml):
            continue
        spec = spec_from_yaml(open(yml).read())
        text = open(py).read()
        n += 1
        for r in range(reps):
            p = _one(spec, text, rnd)
            if p:
                fails.append((base, p))
                break
    for base in ACCEL:
        yml = os.path.join(integ, base + ".yaml")
        if not os.path.exists(yml):
            continue
        y = open(yml).read()
        spec = spec_from_yaml(y)
        c = run.compile_yaml(y, "plain")
        if not c.ok:
            fails.append((base, ["compile: " + c.error]))
            continue
        n += 1
        for r in range(reps):
            p = _one(spec, c.text, rnd, 3, 7)
            if p:
                fails.append((base, p))
                break
    if verbose:
        print("golden validation: %d programs, %d failures" % (n, len(fails)))
        for f in fails:
            print("  ", f)
    return n, fails


if __name__ == "__main__":
    n, f = validate(verbose=True)
    raise SystemExit(1 if f else 0)
