"""C18 - stated mapping-legality rules are enforced for every instance.

Events: what the real pipeline (Einsum/Mapping[/Architecture/Bindings/Format]
parsing + HiFiber construction) does with a spec into which exactly one stated
rule violation was injected: raises ValueError / raises something else /
returns program text.  Control group: the un-injected host must compile.
Oracle: injected => ValueError; text returned => violation (silently
compiled); any other exception type => violation (not rejected with a
ValueError)."""
import random

from .. import case as C, run
from ..gen import illegal as I
from . import common

ID = "C18"
NEEDS_MODEL = False
LEVEL = "fault_enumeration"
N = {"quick": 2400, "thorough": 90000}
TECHNIQUE = ("runtime monitoring with fault injection: one rule violation injected into a legal, "
             "compiling host spec; the real pipeline's exception behaviour is the observed event")


def shard(tier, seed, shard, nshards):
    st = common.Stats()
    n = N[tier] // nshards
    for i in range(n):
        rnd = random.Random("%s-%d-%d-%d" % (ID, seed, shard, i))
        inj = I.INJECTORS[i % len(I.INJECTORS)]
        r = inj(rnd)
        st.evaluations += 1
        if r is None:
            st.bump("status", "no-host")
            continue
        rule, variant, host, bad, mode = r
        h = run.compile_yaml(host.yaml(), mode)
        if not h.ok:
            st.bump("status", "host-does-not-compile")
            st.bump("host_msgs", rule + ": " + common._short("%s: %s" % (h.etype, h.error)))
            continue
        b = run.compile_yaml(bad.yaml(), mode)
        st.bump("status", "injected")
        st.bump("rules", rule)
        cs = C.Case(bad, {}, {}, {}, mode, note={"rule": rule, "variant": variant,
                                                 "host": host.yaml()})
        if b.ok:
            st.bump("outcome", "COMPILED")
            st.violations.append(C.violation(
                ID, cs, [{"kind": "silently-compiled", "rule": rule, "variant": variant}],
                "rule %s (%s) not enforced: spec compiled to %d lines of text" % (
                    rule, variant, len(b.text.splitlines()))))
        elif not b.rejected:
            st.bump("outcome", b.etype)
            st.violations.append(C.violation(
                ID, cs, [{"kind": "wrong-exception", "rule": rule, "variant": variant,
                          "etype": b.etype, "error": b.error}],
                "rule %s (%s) rejected with %s instead of ValueError: %s" % (
                    rule, variant, b.etype, b.error),
                known_finding=classify(rule, variant, b)))
        else:
            st.bump("outcome", "ValueError")
            st.bump("messages", rule + ": " + common._short(b.error))
            st.keys.add(rule + "|" + C.spec_key(bad, mode))
            st.bump("variants", rule + "/" + variant)
            if len(st.samples) < 2:
                st.samples.append({"rule": rule, "variant": variant, "yaml": bad.yaml(),
                                   "raised": "ValueError: " + b.error})
    return st.result()


def classify(rule, variant, b):
    return None


def replay(v):
    cs = C.Case.from_json(v["case"])
    b = run.compile_yaml(cs.spec.yaml(), cs.mode)
    if b.ok:
        return [{"summary": "still compiles silently (%s)" % cs.note.get("rule")}]
    if not b.rejected:
        return [{"summary": "still raises %s: %s" % (b.etype, b.error),
                 "known_finding": v.get("known_finding")}]
    return []


def finalize(results, counters, tier, seed):
    inc = []
    rules = counters.get("rules", {})
    want = ["duplicate-rank-in-declaration", "undeclared-tensor", "repeated-tensor",
            "terms-over-different-rank-sets", "flatten-combined-with-other-directives",
            "flatten-fewer-than-two-ranks", "flatten-on-index-math-rank",
            "flatten-on-independently-partitioned-rank", "flatten-on-already-flattened-rank",
            "nway-after-occupancy", "shape-split-after-flattening",
            "non-flatten-directive-on-rank-tuple", "loop-order-projects-into-output",
            "iterates-output-only-flattened-rank", "einsum-without-accelerator-config"]
    miss = [r for r in want if rules.get(r, 0) == 0]
    if miss:
        inc.append("rules never injected (host never compiled?): %r" % miss)
    cov = {"rule": "16 injectors (at least one per stated rule; 15 rules) x random legal hosts x position of the "
                   "violation (tensor, term, tuple member, stack level, Einsum); the host must "
                   "compile (control); distinct = (rule, injected spec); non-trivial = host "
                   "compiled and the injected spec raised ValueError",
           "instances_per_rule": rules, "variants_seen": len(counters.get("variants", {}))}
    return cov, ["only the rules the statement lists are injected"], inc
