"""setup_cmd: offline, from files on disk only.  Byte-compiles nothing (the
harness runs with PYTHONDONTWRITEBYTECODE); installs icontract/deal beside the
harness if the wheelhouse is present (optional), runs the model self-tests and
the golden validation."""
import os
import subprocess
import sys

HERE = os.path.dirname(os.path.dirname(os.path.abspath(__file__)))


def main():
    deps = os.path.join(HERE, ".deps")
    wheels = "/opt/veriftools/wheels"
    if not os.path.isdir(os.path.join(deps, "icontract")) and os.path.isdir(wheels):
        r = subprocess.run([sys.executable, "-m", "pip", "install", "--quiet", "--no-index",
                            "--find-links", wheels, "--target", deps, "icontract"],
                           capture_output=True, text=True)
        print("icontract install:", "ok" if r.returncode == 0 else "skipped (%s)" % r.stderr[-200:])
    env = dict(os.environ, PYTHONHASHSEED="0", PYTHONDONTWRITEBYTECODE="1",
               PYTHONPATH=HERE + os.pathsep + "/repo")
    r = subprocess.run([sys.executable, "-m", "vf.selftest"], cwd=HERE, env=env)
    if r.returncode:
        return r.returncode
    r = subprocess.run([sys.executable, "-m", "vf.golden"], cwd=HERE, env=env)
    return r.returncode


if __name__ == "__main__":
    sys.exit(main())
