"""C17 - specification text is parsed into exactly the structure written.

Events: the parse trees returned by the public parser classes (and the
instance counts computed by Architecture) for generated strings.
Oracle: (a) round trip - generator structure -> text with random insignificant
whitespace -> real parser -> independent extractor over the Lark tree ==
structure; (b) differential against an independent reference recogniser
(vf/monitors/refgrammar.py) on near-miss strings obtained by token deletion,
duplication, swapping, keyword misspelling and bracket unbalancing: the real
parser must accept exactly what the grammar accepts, and with the same
structure."""
import random

from .. import run
from ..monitors import refgrammar as R
from . import common

ID = "C17"
NEEDS_MODEL = False
LEVEL = "exploration"
N = {"quick": 12000, "thorough": 600000}
TECHNIQUE = ("runtime monitoring: round-trip and differential monitor on the real parser classes "
             "against an independent reference recogniser, over generated and mutated strings")

NAMES = ["A", "B", "Z", "T1", "take1", "takeA", "take", "flattenX", "follow_me", "uniform", "x",
         "mk0", "K0", "a_b", "_t", "I", "O", "pos", "coord", "nway", "M1"]
IDX = ["m", "n", "k", "q", "s", "w", "k0", "m1", "take", "pos", "j"]


def ws(rnd):
    return rnd.choice(["", "", "", " ", " ", "  ", "\t"])


# ------------------------------------------------------------ generators

def gen_iexpr(rnd):
    out = []
    for _ in range(rnd.choice([1, 1, 1, 2, 3])):
        if rnd.random() < 0.5:
            out.append((1, rnd.choice(IDX)))
        else:
            c = rnd.choice([2, 3, 4, 10, 12, 100, -1, -2, -3, -17, 0, 1, -0, 9007199254740993,
                            -(2 ** 70 + 3)])
            out.append((c, rnd.choice(IDX)))
    return out


def iexpr_text(rnd, ix, explicit):
    parts = []
    for (c, v), ex in zip(ix, explicit):
        if c == 1 and not ex:
            parts.append(v)
        elif c < 0 or (c == 0 and rnd.random() < 0.0):
            parts.append("-" + ws(rnd) + str(-c) + ws(rnd) + "*" + ws(rnd) + v)
        else:
            parts.append(str(c) + ws(rnd) + "*" + ws(rnd) + v)
    return (ws(rnd) + "+" + ws(rnd)).join(parts)


def gen_einsum(rnd):
    def acc(name):
        n = rnd.choice([0, 1, 1, 2, 2, 3])
        return ("tensor", name, [gen_iexpr(rnd) for _ in range(n)])
    names = rnd.sample(NAMES, 8)
    out = (names[0], [gen_iexpr(rnd) for _ in range(rnd.choice([0, 1, 2, 3]))])
    terms = []
    it = iter(names[1:])
    for _ in range(rnd.choice([1, 1, 2, 3])):
        nf = rnd.choice([1, 2, 3])
        fs = []
        for _ in range(nf):
            try:
                nm = next(it)
            except StopIteration:
                nm = "Q%d" % rnd.randrange(99)
            fs.append(("var", nm) if rnd.random() < 0.2 else acc(nm))
        if rnd.random() < 0.3:
            terms.append(("take", fs, rnd.randrange(len(fs))))
        else:
            terms.append(("times", fs, None))
    return {"out": out, "terms": terms}


def einsum_text(rnd, st):
    def ranks(rs):
        inner = []
        for ix in rs:
            explicit = [rnd.random() < 0.15 for _ in ix]
            inner.append(iexpr_text(rnd, ix, explicit))
        return "[" + ws(rnd) + (ws(rnd) + "," + ws(rnd)).join(inner) + ws(rnd) + "]"

    def factor(f):
        if f[0] == "var":
            return f[1]
        return f[1] + ws(rnd) + ranks(f[2])

    def term(t):
        kind, fs, sel = t
        if kind == "take":
            return "take(" + ws(rnd) + (ws(rnd) + "," + ws(rnd)).join(factor(f) for f in fs) + \
                ws(rnd) + "," + ws(rnd) + str(sel) + ws(rnd) + ")"
        return (ws(rnd) + "*" + ws(rnd)).join(factor(f) for f in fs)
    return ws(rnd) + st["out"][0] + ws(rnd) + ranks(st["out"][1]) + ws(rnd) + "=" + ws(rnd) + \
        (ws(rnd) + "+" + ws(rnd)).join(term(t) for t in st["terms"]) + ws(rnd)


def norm_einsum(st):
    """explicit `1 * v` and `v` both mean coefficient 1; -0 == 0"""
    def nx(ix):
        return [(int(c), v) for c, v in ix]

    def nf(f):
        return f if f[0] == "var" else ("tensor", f[1], [nx(i) for i in f[2]])
    return {"out": (st["out"][0], [nx(i) for i in st["out"][1]]),
            "terms": [(k, [nf(f) for f in fs], sel) for k, fs, sel in st["terms"]]}


def gen_directive(rnd):
    k = rnd.choice(["uniform_shape", "nway_shape", "uniform_occupancy", "flatten", "follow"])
    size = rnd.choice([1, 4, 16, 128, 16384, "K0", "M1", "N", "sz", "nway", "flatten1",
                       9007199254740993, 2 ** 64 + 1, 10 ** 30 + 7, 0, 7])
    if k == "flatten":
        return ("flatten",)
    if k == "follow":
        return ("follow", rnd.choice(["K", "Q", "MK0", "follow"]))
    if k == "uniform_occupancy":
        return (k, rnd.choice(["A", "B", "T1", "uniform_shape1"]), size)
    return (k, size)


def directive_text(rnd, d):
    if d[0] == "flatten":
        return ws(rnd) + "flatten(" + ws(rnd) + ")" + ws(rnd)
    if d[0] == "follow":
        return ws(rnd) + "follow(" + ws(rnd) + d[1] + ws(rnd) + ")" + ws(rnd)
    if d[0] == "uniform_occupancy":
        return ws(rnd) + "uniform_occupancy(" + ws(rnd) + d[1] + ws(rnd) + "." + ws(rnd) + \
            str(d[2]) + ws(rnd) + ")" + ws(rnd)
    return ws(rnd) + d[0] + "(" + ws(rnd) + str(d[1]) + ws(rnd) + ")" + ws(rnd)


def gen_ranks(rnd):
    n = rnd.choice([1, 1, 2, 2, 3, 4])
    return [rnd.choice(["M", "K0", "MK0", "N1", "P", "flatten", "M0K0"]) for _ in range(n)]


def ranks_text(rnd, rs):
    if len(rs) == 1:
        return ws(rnd) + rs[0] + ws(rnd)
    return ws(rnd) + "(" + ws(rnd) + (ws(rnd) + "," + ws(rnd)).join(rs) + ws(rnd) + ")" + ws(rnd)


def gen_stamp(rnd):
    return (rnd.choice(["M", "K1", "N0", "MK01", "pos", "coord", "M0K00"]),
            rnd.choice(["pos", "coord", None]))


def stamp_text(rnd, s):
    r, style = s
    if style is None:
        return ws(rnd) + r + ws(rnd)
    return ws(rnd) + r + ws(rnd) + "." + style + ws(rnd)


def gen_level(rnd):
    n = rnd.choice(["System", "PE", "Chip", "L2", "PE_row", "x"])
    return (n, rnd.choice([None, 0, 1, 7, 15, 127, 1023, 2 ** 60 + 1]))


def level_text(rnd, l):
    n, hi = l
    if hi is None:
        return ws(rnd) + n + ws(rnd)
    return ws(rnd) + n + ws(rnd) + "[0.." + ws(rnd) + str(hi) + ws(rnd) + "]" + ws(rnd)


# ------------------------------------------------------------ extractors

def _tok(x):
    return str(x)


def ext_iexpr(t):
    out = []
    for c in t.children:
        if c.data == "ijust":
            out.append((1, _tok(c.children[0])))
        elif c.data == "itimes":
            out.append((int(_tok(c.children[0])), _tok(c.children[1])))
        else:
            raise ValueError("iterm " + str(c.data))
    return out


def ext_ranks(t):
    return [ext_iexpr(c) for c in t.children]


def ext_factor(t):
    if t.data == "var":
        return ("var", _tok(t.children[0]))
    if str(t.data) == "tensor":
        return ("tensor", _tok(t.children[0]), ext_ranks(t.children[1]))
    raise ValueError("factor " + str(t.data))


def ext_einsum(t):
    assert t.data == "einsum"
    o, e = t.children
    assert o.data == "output" and e.data == "plus"
    out = (_tok(o.children[0]), ext_ranks(o.children[1]))
    terms = []
    for c in e.children:
        if c.data == "times":
            terms.append(("times", [ext_factor(f) for f in c.children], None))
        elif c.data == "take":
            fs = [ext_factor(f) for f in c.children[:-1]]
            terms.append(("take", fs, int(_tok(c.children[-1]))))
        else:
            raise ValueError("term " + str(c.data))
    return {"out": out, "terms": terms}


def ext_directive(t):
    def size(s):
        return int(_tok(s.children[0])) if s.data == "int_sz" else _tok(s.children[0])
    k = str(t.data)
    if k == "flatten":
        assert not t.children
        return ("flatten",)
    if k == "follow":
        return ("follow", _tok(t.children[0].children[0]))
    if k == "uniform_occupancy":
        return (k, _tok(t.children[0].children[0]), size(t.children[1]))
    return (k, size(t.children[0]))


def ext_rank_tuple(t):
    return [_tok(c) for c in t.children]


def ext_stamp(t):
    return (_tok(t.children[0]), str(t.data))


def arch_instances(level_text_):
    from teaal.parse.arch import Architecture
    y = {"architecture": {"accel": [{"name": level_text_, "local": [],
                                     "subtree": [{"name": "Inner", "local": []}]}]}}
    a = Architecture(y)
    top = a.get_spec()["architecture"]["accel"][0]
    return (top["name"], top["num"]), top["subtree"][0]["num"]


def arch_instances_shared(level_text_):
    """The same level reached from two configurations (what a YAML anchor/alias produces: one
    dictionary referenced twice): its instance range must mean the same under both."""
    from teaal.parse.arch import Architecture
    lvl = {"name": level_text_, "local": [], "subtree": [{"name": "Inner", "local": []}]}
    y = {"architecture": {"cfgA": [{"name": "TopA", "local": [], "subtree": [lvl]}],
                          "cfgB": [{"name": "TopB[0..1]", "local": [], "subtree": [lvl]}]}}
    a = Architecture(y)
    sp = a.get_spec()["architecture"]
    la, lb = sp["cfgA"][0]["subtree"][0], sp["cfgB"][0]["subtree"][0]
    return [(l["name"], l["num"], l["subtree"][0]["num"]) for l in (la, lb)] + \
        [sp["cfgB"][0]["num"]]


# ------------------------------------------------------------ mutation

def mutate(rnd, s):
    ops = ["del", "dup", "swap", "misspell", "bracket", "space-in-token", "insert", "newline",
           "non-ascii"]
    op = rnd.choice(ops)
    if not s.strip():
        return s + "x x"
    i = rnd.randrange(len(s))
    if op == "del":
        return s[:i] + s[i + 1:]
    if op == "dup":
        return s[:i] + s[i] + s[i:]
    if op == "swap" and len(s) > 1:
        j = min(len(s) - 1, i + 1)
        l = list(s)
        l[i], l[j] = l[j], l[i]
        return "".join(l)
    if op == "misspell":
        for kw in ["take(", "uniform_shape(", "nway_shape(", "uniform_occupancy(", "flatten(",
                   "follow(", ".pos", ".coord", "[0.."]:
            if kw in s:
                k = s.index(kw)
                j = k + rnd.randrange(len(kw))
                return s[:j] + rnd.choice(["", "x", " "]) + s[j + rnd.choice([0, 1]):]
    if op == "newline":
        # whitespace the grammars do NOT ignore
        j = rnd.choice([0, len(s), i])
        return s[:j] + rnd.choice(["\n", "\r", "\x0b", "\x0c", "\u00a0", "\u2003"]) + s[j:]
    if op == "non-ascii":
        return s[:i] + rnd.choice(["\u00b5", "\u00d1", "\u00e9", "\u0394", "\uff21"]) + s[i:]
    if op == "bracket":
        return s[:i] + rnd.choice("[]()") + s[i:]
    if op == "space-in-token":
        return s[:i] + " " + s[i:]
    return s[:i] + rnd.choice(["+", "*", ",", "=", "-", "1", "a", ")", "take("]) + s[i:]


# ------------------------------------------------------------ the check

def real_parsers():
    from teaal.parse.equation import EquationParser
    from teaal.parse.partitioning import PartitioningParser
    from teaal.parse.spacetime import SpaceTimeParser
    from teaal.parse.level import LevelParser
    return {
        "einsum": (lambda s: ext_einsum(EquationParser.parse(s)), R.parse_einsum),
        "directive": (lambda s: ext_directive(PartitioningParser.parse_partitioning(s)),
                      R.parse_directive),
        "ranks": (lambda s: ext_rank_tuple(PartitioningParser.parse_ranks(s)), R.parse_ranks),
        "stamp": (lambda s: ext_stamp(SpaceTimeParser.parse(s)), R.parse_stamp),
        "level": (lambda s: (lambda t: (str(t.children[0]),
                                        1 if t.data == "single" else int(str(t.children[1])) + 1))(
            LevelParser.parse(s)), R.parse_level),
    }


GENS = {
    "einsum": (gen_einsum, einsum_text, norm_einsum),
    "directive": (gen_directive, directive_text, lambda x: x),
    "ranks": (gen_ranks, ranks_text, lambda x: x),
    "stamp": (gen_stamp, stamp_text, lambda s: (s[0], s[1] or "pos")),
    "level": (gen_level, level_text, lambda l: (l[0], 1 if l[1] is None else l[1] + 1)),
}


def judge(g, text, real, ref):
    """Returns (verdict, detail): agree-accept / agree-reject / skip / problem."""
    try:
        want = ref(text)
        ref_ok = True
    except R.Reject:
        ref_ok = False
        want = None
    except R.Unknown:
        return "skip", None
    try:
        got = real(text)
        real_ok = True
    except Exception as e:  # lark errors, ValueError, AssertionError...
        import lark
        if isinstance(e, (lark.exceptions.LarkError, ValueError)):
            real_ok = False
            got = None
        else:
            return "problem", {"kind": "parser-crash", "error": "%s: %s" % (type(e).__name__, e)}
    if ref_ok and not real_ok:
        return "problem", {"kind": "rejected-valid-text", "want": want}
    if real_ok and not ref_ok:
        return "problem", {"kind": "accepted-text-outside-grammar", "got": got}
    if ref_ok and got != want:
        return "problem", {"kind": "wrong-structure", "got": got, "want": want}
    return ("agree-accept" if ref_ok else "agree-reject"), None


def shard(tier, seed, shard, nshards):
    st = common.Stats()
    parsers = real_parsers()
    n = N[tier] // nshards
    kinds = list(GENS)
    for i in range(n):
        rnd = random.Random("%s-%d-%d-%d" % (ID, seed, shard, i))
        g = kinds[i % len(kinds)] if i % 2 else "einsum"
        gen, text_of, norm = GENS[g]
        real, ref = parsers[g]
        struct = gen(rnd)
        text = text_of(rnd, struct)
        cases = [("generated", text, norm(struct))]
        m = text
        for _ in range(rnd.choice([1, 1, 2])):
            m = mutate(rnd, m)
        cases.append(("mutated", m, None))
        # every string is also offered to the OTHER grammars' parsers (a text that belongs to
        # one grammar must not be accepted by another entry point, whatever was parsed before)
        for g2 in kinds:
            if g2 != g and rnd.random() < 0.5:
                cases.append(("cross:" + g2, text, None))
        for origin, t, want in cases:
            st.evaluations += 1
            if origin.startswith("cross:"):
                g2 = origin[6:]
                verdict, detail = judge(g2, t, *parsers[g2])
                st.bump("verdicts", g2 + "/cross/" + verdict)
                if verdict == "problem":
                    st.violations.append({"property": ID, "known_finding": None,
                                          "summary": "%s grammar offered a %s string %r: %s" % (
                                              g2, g, t, detail),
                                          "problems": [detail], "case": {"grammar": g2, "text": t}})
                continue
            verdict, detail = judge(g, t, real, ref)
            st.bump("verdicts", g + "/" + origin + "/" + verdict)
            if verdict == "skip":
                continue
            if verdict != "problem" and origin == "generated":
                # round trip against the GENERATOR's structure as well
                try:
                    got = real(t)
                except Exception:
                    got = None
                if got != want:
                    verdict, detail = "problem", {"kind": "round-trip", "got": got, "want": want}
            if verdict == "problem":
                st.violations.append({"property": ID, "known_finding": None,
                                      "summary": "%s grammar, %s string %r: %s" % (
                                          g, origin, t, detail),
                                      "problems": [detail], "case": {"grammar": g, "text": t}})
            else:
                st.keys.add(g + ":" + t)
                if len(st.samples) < 6 and rnd.random() < 0.01:
                    st.samples.append({"grammar": g, "text": t, "verdict": verdict})
        if g == "level" and struct[1] is not None:
            # instance count N+1 through Architecture
            try:
                (nm, num), inner = arch_instances(text)
                st.bump("verdicts", "arch/instances")
                if (nm, num) != (struct[0], struct[1] + 1) or inner != 1:
                    st.violations.append({"property": ID, "known_finding": None,
                                          "summary": "Architecture gives %r x%r (inner %r) for %r" % (
                                              nm, num, inner, text),
                                          "problems": [{"kind": "arch-instances"}],
                                          "case": {"grammar": "arch", "text": text}})
                sh = arch_instances_shared(text)
                st.bump("verdicts", "arch/shared-level")
                want = (struct[0], struct[1] + 1, 1)
                if sh[0] != want or sh[1] != want or sh[2] != 2:
                    st.violations.append({"property": ID, "known_finding": None,
                                          "summary": "a level shared by two configurations: "
                                                     "Architecture gives %r for %r" % (sh, text),
                                          "problems": [{"kind": "arch-instances-shared-level"}],
                                          "case": {"grammar": "arch", "text": text}})
            except Exception as e:
                st.violations.append({"property": ID, "known_finding": None,
                                      "summary": "Architecture failed on %r: %s" % (text, e),
                                      "problems": [{"kind": "arch-crash"}],
                                      "case": {"grammar": "arch", "text": text}})
    return st.result()


def replay(v):
    parsers = real_parsers()
    g, t = v["case"]["grammar"], v["case"]["text"]
    if g == "arch":
        try:
            return [] if arch_instances(t) else []
        except Exception as e:
            return [{"summary": str(e)}]
    verdict, detail = judge(g, t, *parsers[g])
    return [{"summary": "%s %r: %s" % (g, t, detail)}] if verdict == "problem" else []


def finalize(results, counters, tier, seed):
    inc = []
    vd = counters.get("verdicts", {})
    for g in GENS:
        if vd.get(g + "/generated/agree-accept", 0) == 0:
            inc.append("no generated %s string was accepted" % g)
        if vd.get(g + "/mutated/agree-reject", 0) == 0:
            inc.append("no mutated %s string was rejected" % g)
    cov = {"rule": "five grammars; structures -> text with random inter-token whitespace; 1-2 "
                   "character-level mutations per string; every string judged by the real parser and "
                   "the independent reference; distinct = distinct (grammar, text) on which both "
                   "agreed; non-trivial = judged (not skipped as float-like)",
           "verdicts": vd}
    return cov, ["reference recogniser implements the documented grammars with greedy "
                 "tokenisation; strings containing float-like numbers are skipped (NUMBER in the "
                 "real grammars admits floats, which the property does not discuss)"], inc
