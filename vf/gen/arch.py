"""Generator for full specifications: Einsum + mapping + architecture +
bindings + format (metrics mode).  Parameterises the shapes the repository
itself accepts (gamma / extensor / outerspace / test fixtures); whatever the
compiler refuses is counted as rejected.

The generator keeps its own structured view (spec.arch_info) for the C13 /
C14 oracles: per configuration the component -> (class, instances, clock or
bandwidth) table, and per Einsum the config, bound components, loop order and
space ranks."""
from ..spec import Acc, Term, Einsum, Spec


def _acc(name, ranks):
    return Acc(name, [[(1, r.lower())] for r in ranks])


def _level_name(base, n):
    return base if n == 1 else "%s[0..%d]" % (base, n - 1)


def gen_metrics(rnd, n_einsums=None, force=None):
    # families: chosen by `force` (deterministic, used by the checks) or at random
    if force == "merger-static":
        return gen_merger(rnd, dynamic=False)
    if force == "merger-dynamic":
        return gen_merger(rnd, dynamic=True)
    if force == "lf-shared":
        return gen_lf_shared(rnd)
    if force == "lf-affine":
        return gen_lf_affine(rnd)
    if force == "part":
        return gen_part_metrics(rnd)
    if force == "reread-m":
        return gen_reread_metrics(rnd)
    if force == "alias-arch":
        return gen_alias_arch(rnd)
    if force == "occ-conv":
        return gen_occ_conv_metrics(rnd)
    if force == "lf-take":
        return gen_lf_take(rnd)
    if force == "flat-out":
        return gen_flat_out_metrics(rnd)
    if force is None:
        if n_einsums in (None, 1) and rnd.random() < 0.12:
            return gen_merger(rnd)
        if n_einsums in (None, 2) and rnd.random() < 0.08:
            return gen_lf_shared(rnd)
        if n_einsums in (None, 1) and rnd.random() < 0.06:
            return gen_lf_affine(rnd)
        if n_einsums in (None, 1) and rnd.random() < 0.18:
            return gen_part_metrics(rnd)
        if n_einsums in (None, 2) and rnd.random() < 0.06:
            return gen_reread_metrics(rnd)
        if rnd.random() < 0.08:
            force = "eager2"
    e2 = force == "eager2"    # one tensor loaded eagerly into two buffer levels
    pool = ["M", "N", "K", "J"]
    nr = rnd.randint(2, 3) if not e2 else 3
    perm = rnd.sample(pool, nr)           # global rank precedence (concordant everywhere)
    n = n_einsums or rnd.choice([1, 1, 2, 2, 3, 3, 4])
    decl = {}
    exprs = []
    reused = broadcast = False
    fresh = iter("ABCDEFGHIJKLMNOPQRSVWXY")
    outs = ["T", "U", "V", "Z"]
    prev = None
    einfo = []
    for i in range(n):
        out = outs[i] if i < n - 1 else "Z"
        ranks = [r for r in perm if rnd.random() < 0.8] or [perm[0]]
        if prev is not None:
            for r in decl[prev]:
                if r not in ranks:
                    ranks.append(r)
            ranks = [r for r in perm if r in ranks]
        facs = []
        cover = set()
        if prev is not None and rnd.random() < 0.85:
            facs.append(prev)
            cover |= set(decl[prev])
        nf = rnd.randint(1, 2) if facs else rnd.randint(1, 3)
        # an input of an earlier Einsum may be read again (as gamma reads A twice)
        if i > 0 and rnd.random() < 0.45:
            olds = [t for ei0 in einfo for t in ei0["inputs"]
                    if t not in outs and t not in facs and decl[t] and
                    all(r in perm for r in decl[t])]
            if olds:
                t = rnd.choice(olds)
                for r in decl[t]:
                    if r not in ranks:
                        ranks.append(r)
                ranks = [r for r in perm if r in ranks]
                facs.append(t)
                cover |= set(decl[t])
                reused = True
        for _ in range(nf):
            name = next(fresh)
            k = rnd.randint(min(2, len(ranks)) if e2 else 1, len(ranks))
            fr = [r for r in perm if r in rnd.sample(ranks, k)]
            decl[name] = fr
            facs.append(name)
            cover |= set(fr)
        missing = [r for r in ranks if r not in cover]
        if missing:
            name = next(fresh)
            decl[name] = [r for r in perm if r in missing]
            facs.append(name)
        out_ranks = [r for r in ranks if rnd.random() < 0.6] or [ranks[0]]
        spare = [r for r in perm if r not in ranks]
        if spare and rnd.random() < 0.08:
            # an output-only (broadcast) rank: iterated over the output alone
            bc = rnd.choice(spare)
            out_ranks = [r for r in perm if r in out_ranks or r == bc]
            ranks = [r for r in perm if r in ranks or r == bc]
            broadcast = True
        decl[out] = out_ranks
        rnd.shuffle(facs)
        exprs.append(Einsum(_acc(out, out_ranks), [Term("times", [_acc(f, decl[f]) for f in facs])]))
        lo = list(ranks)
        k = rnd.randint(0, len(lo))
        space = lo[k:] if rnd.random() < 0.6 else []
        if einfo and rnd.random() < 0.5:
            # same temporal prefix as the previous Einsum when the ranks allow it
            pe = einfo[-1]
            ppre = pe["loop_order"][:len(pe["loop_order"]) - len(pe["space"])]
            if lo[:len(ppre)] == ppre:
                space = lo[len(ppre):]
        einfo.append({"out": out, "loop_order": lo, "space": space,
                      "time": [r for r in lo if r not in space], "inputs": list(facs)})
        prev = out
    # ---- architecture: 1-2 configurations
    nconf = 1 if n == 1 or rnd.random() < 0.5 else 2
    confs = {}
    arch_lines = ["architecture:"]
    for c in range(nconf):
        cname = "accel%d" % c
        freq = rnd.choice([1000, 2048, 500])
        bw = rnd.choice([64, 512, 1024])
        npe = rnd.choice([1, 4, 8])
        mid = rnd.random() < 0.35 or e2
        nchip = rnd.choice([1, 2]) if mid else 1
        comps = {}
        sfx = "" if nconf == 1 else "_c%d" % c
        arch_lines += ["  %s:" % cname, "  - name: System", "    attributes:",
                       "      clock_frequency: %d" % freq, "    local:",
                       "    - name: Mem%s" % sfx, "      class: DRAM", "      attributes:",
                       "        bandwidth: %d" % bw]
        comps["Mem"] = {"class": "DRAM", "inst": 1, "bandwidth": bw, "depth": 0}
        if rnd.random() < 0.3:
            # a compute unit on the (single-instance) top level, beside those in the PEs
            arch_lines += ["    - name: AddSys%s" % sfx, "      class: compute", "      attributes:",
                           "        type: add"]
            comps["AddSys"] = {"class": "compute", "inst": 1, "functional": True}
        ind = "    "
        depth = 1
        if mid:
            l2bw = rnd.choice([128, 2048])
            l2cls = rnd.choice(["Buffet", "Cache"]) if not e2 else "Buffet"
            arch_lines += [ind + "subtree:", ind + "- name: %s" % _level_name("Chip", nchip),
                           ind + "  local:", ind + "  - name: L2%s" % sfx, ind + "    class: %s" % l2cls,
                           ind + "    attributes:", ind + "      width: 64",
                           ind + "      depth: 1024", ind + "      bandwidth: %d" % l2bw]
            comps["L2"] = {"class": l2cls, "inst": nchip, "bandwidth": l2bw, "depth": 1}
            ind += "  "
            depth = 2
        bufcls = rnd.choice(["Buffet", "Buffet", "Cache"]) if not e2 else "Buffet"
        arch_lines += [ind + "subtree:", ind + "- name: %s" % _level_name("PE", npe),
                       ind + "  local:", ind + "  - name: Buf%s" % sfx, ind + "    class: %s" % bufcls,
                       ind + "    attributes:", ind + "      width: 64",
                       ind + "      depth: %s" % rnd.choice(["128", "inf"])]
        comps["Buf"] = {"class": bufcls, "inst": npe, "depth": depth}
        nmul = rnd.choice([1, 2, 2, 3, 4])
        for j in range(nmul):
            arch_lines += [ind + "  - name: Mul%d%s" % (j, sfx), ind + "    class: compute",
                           ind + "    attributes:", ind + "      type: mul"]
            comps["Mul%d" % j] = {"class": "compute", "inst": npe, "functional": True}
        arch_lines += [ind + "  - name: Add0%s" % sfx, ind + "    class: Compute",
                       ind + "    attributes:", ind + "      type: add"]
        comps["Add0"] = {"class": "compute", "inst": npe, "functional": True}
        itypes = []
        for j in range(rnd.choice([0, 1, 1, 2])):
            t = rnd.choice(["two-finger", "skip-ahead", "leader-follower"])
            itypes.append(t)
            arch_lines += [ind + "  - name: Isect%d%s" % (j, sfx), ind + "    class: Intersector",
                           ind + "    attributes:", ind + "      type: %s" % t]
            comps["Isect%d" % j] = {"class": "intersector", "type": t, "inst": npe,
                                    "functional": True}
        if rnd.random() < 0.5:
            arch_lines += [ind + "  - name: Seq0%s" % sfx, ind + "    class: Sequencer",
                           ind + "    attributes:", ind + "      num_ranks: %d" % nr]
            comps["Seq0"] = {"class": "sequencer", "inst": npe, "functional": True}
        confs[cname] = {"freq": freq, "components": comps, "mid": mid, "sfx": sfx}
    # ---- format: one default format per ranked tensor
    fmt_lines = ["format:"]
    fmt = {}
    for t, rs in decl.items():
        if not rs:
            continue
        fmt_lines += ["  %s:" % t, "    default:", "      rank-order: [%s]" % ", ".join(rs)]
        fmt[t] = {}
        for r in rs:
            cb = rnd.choice([0, 32, 32]) if not e2 else 32
            pb = rnd.choice([0, 32, 64])
            fmt_lines += ["      %s:" % r, "        format: %s" % rnd.choice(["C", "U"])]
            if cb:
                fmt_lines.append("        cbits: %d" % cb)
            if pb:
                fmt_lines.append("        pbits: %d" % pb)
            fmt[t][r] = (cb, pb)
    # ---- bindings
    b_lines = ["bindings:"]
    used_conf = None
    prefer = {}           # intersector -> rank bound in the previous Einsum
    for i, ei in enumerate(einfo):
        out = ei["out"]
        if used_conf is None or (nconf > 1 and rnd.random() < 0.4):
            used_conf = rnd.choice(sorted(confs))
        cname = used_conf
        comps = confs[cname]["components"]
        sfx = confs[cname]["sfx"]
        ei["config"] = cname
        ei["bound"] = {}
        lo_i = ei["loop_order"]
        b_lines += ["  %s:" % out, "  - config: %s" % cname, "    prefix: tmp/%s" % out]
        tens = [t for t in ei["inputs"] + [out] if decl[t]]
        bound = [t for t in tens if rnd.random() < (0.7 if not e2 else 0.9)]
        bare = i > 0 and rnd.random() < 0.12
        if bare:
            # nothing but the configuration is bound: no timed component at all
            ei["bare"] = True
            continue

        def tb(kind, eager=None):
            """kind: dram | cache | buffet; eager: {tensor: (rank, evict)}"""
            s = []
            for t in bound:
                if eager and t in eager:
                    r, ev = eager[t]
                    s += ["    - tensor: %s" % t, "      rank: %s" % r, "      type: coord",
                          "      format: default", "      evict-on: %s" % ev, "      style: eager"]
                    continue
                for r in decl[t]:
                    for ty in ("coord", "payload"):
                        s += ["    - tensor: %s" % t, "      rank: %s" % r, "      type: %s" % ty,
                              "      format: default"]
                        if kind == "buffet":
                            pos = lo_i.index(r)
                            ev = rnd.choice(["root"] + lo_i[:pos]) if rnd.random() < 0.8 else "root"
                            s.append("      evict-on: %s" % ev)
                            if rnd.random() < 0.2:
                                s.append("      style: lazy")
            return s
        if bound:
            b_lines += ["  - component: Mem%s" % sfx, "    bindings:"] + tb("dram")
            ei["bound"]["Mem"] = True
            eager, eager2 = {}, {}
            if comps["Buf"]["class"] == "Buffet":
                for t in bound:
                    cands = [r for r in decl[t] if lo_i.index(r) >= 1 and fmt[t][r][0] > 0]
                    if cands and rnd.random() < (0.3 if not e2 else 0.8):
                        r = rnd.choice(cands) if not e2 else cands[-1]
                        eager[t] = (r, rnd.choice(lo_i[:lo_i.index(r)]))
            if "L2" in comps and (rnd.random() < 0.7 or e2):
                if comps["L2"]["class"] == "Buffet":
                    # the same tensor loaded eagerly at two buffer levels, usually at
                    # two different root ranks (a tile into L2, a fiber of it into Buf)
                    for t in bound:
                        cands = [r for r in decl[t] if lo_i.index(r) >= 1 and fmt[t][r][0] > 0]
                        if t in eager:
                            above = [r for r in cands
                                     if decl[t].index(r) <= decl[t].index(eager[t][0])]
                            if above and (rnd.random() < 0.6 or e2):
                                r = rnd.choice(above) if not e2 else above[0]
                                eager2[t] = (r, rnd.choice(lo_i[:lo_i.index(r)]))
                                if r != eager[t][0]:
                                    ei["eager_two_roots"] = True
                        elif cands and rnd.random() < 0.15:
                            r = rnd.choice(cands)
                            eager2[t] = (r, rnd.choice(lo_i[:lo_i.index(r)]))
                b_lines += ["  - component: L2%s" % sfx, "    bindings:"] + \
                    tb("buffet" if comps["L2"]["class"] == "Buffet" else "cache", eager2)
                ei["bound"]["L2"] = True
            if comps["Buf"]["class"] == "Buffet":
                b_lines += ["  - component: Buf%s" % sfx, "    bindings:"] + tb("buffet", eager)
            else:
                b_lines += ["  - component: Buf%s" % sfx, "    bindings:"] + tb("cache")
            ei["bound"]["Buf"] = True
        muls = sorted(c for c in comps if c.startswith("Mul"))
        # prefer a multiplier no earlier Einsum uses, so that blocks of 3-4 Einsums can form
        free = [m for m in muls if not any(m in e0.get("bound", {}) for e0 in einfo[:i])]
        if rnd.random() < 0.85:
            m = rnd.choice(free) if free and rnd.random() < 0.7 else rnd.choice(muls)
            b_lines += ["  - component: %s%s" % (m, sfx), "    bindings:", "    - op: mul"]
            ei["bound"][m] = True
        if rnd.random() < (0.3 if i > 0 else 0.8):
            b_lines += ["  - component: Add0%s" % sfx, "    bindings:", "    - op: add"]
            ei["bound"]["Add0"] = True
        elif "AddSys" in comps and rnd.random() < 0.8:
            # adds on the top level, multiplies in the PEs: two instance counts in one Einsum
            b_lines += ["  - component: AddSys%s" % sfx, "    bindings:", "    - op: add"]
            ei["bound"]["AddSys"] = True
            ei["compute_on_two_levels"] = True
        isects = sorted(c for c in comps if c.startswith("Isect"))
        cands = [r for r in lo_i if sum(1 for t in ei["inputs"] if r in decl[t]) >= 2]
        rnd.shuffle(cands)
        for c in isects:
            if rnd.random() >= 0.75:
                continue
            lines = []
            for _ in range(rnd.choice([1, 1, 2])):
                ok = [r for r in cands if comps[c]["type"] == "leader-follower" or
                      sum(1 for t in ei["inputs"] if r in decl[t]) == 2 or rnd.random() < 0.1]
                if not ok:
                    break
                r = ok[0]
                if prefer.get((cname, c)) in ok and rnd.random() < 0.7:
                    # the same intersector on the same rank as in the previous Einsum
                    r = prefer[(cname, c)]
                    ei["same_rank_intersector"] = True
                prefer[(cname, c)] = r
                cands.remove(r)
                holders = [t for t in ei["inputs"] if r in decl[t]]
                lines.append("    - rank: %s" % r)
                if comps[c]["type"] == "leader-follower":
                    # leader = first factor of the term in written order (KF-6 otherwise)
                    written = [a.name for a in exprs[i].terms[0].tensors() if a.name in holders]
                    leader = written[0] if rnd.random() < 0.8 else rnd.choice(written)
                    if leader != written[0]:
                        ei["lf_leader_not_first"] = True
                    lines.append("      leader: %s" % leader)
            if lines:
                b_lines += ["  - component: %s%s" % (c, sfx), "    bindings:"] + lines
                ei["bound"][c] = True
                if len([l for l in lines if "rank:" in l]) > 1:
                    ei["multi_rank_isect"] = True
        if "Seq0" in comps and rnd.random() < 0.7:
            k = rnd.randint(1, len(lo_i))
            rs = rnd.sample(lo_i, k)
            b_lines += ["  - component: Seq0%s" % sfx, "    bindings:"] + \
                ["    - rank: %s" % r for r in rs]
            ei["bound"]["Seq0"] = True
    ro = {t: list(rs) for t, rs in decl.items()}
    lo = {ei["out"]: ei["loop_order"] for ei in einfo}
    st = {}
    for ei in einfo:
        tm = list(ei["time"])
        if len(tm) > 1 and rnd.random() < 0.35:
            rnd.shuffle(tm)
            ei["time_shuffled"] = tm != ei["time"]
        sp = list(ei["space"])
        if len(sp) > 1 and rnd.random() < 0.35:
            rnd.shuffle(sp)
            ei["space_shuffled"] = sp != ei["space"]
        st[ei["out"]] = {"space": sp, "time": tm}
    extra = "\n".join(arch_lines + b_lines + fmt_lines) + "\n"
    tags = ["metrics", "m-einsums%d" % n, "m-configs%d" % nconf]
    if any("lf_leader_not_first" in ei for ei in einfo):
        tags.append("lf-leader-not-first")
    if broadcast:
        tags.append("m-output-only-rank")
    if any(ei.get("compute_on_two_levels") for ei in einfo):
        tags.append("m-compute-on-two-levels")
    if reused:
        tags.append("m-input-read-by-two-einsums")
    if any(ei.get("time_shuffled") for ei in einfo):
        tags.append("m-time-list-not-in-loop-order")
    if any(ei.get("space_shuffled") for ei in einfo):
        tags.append("m-space-list-not-in-loop-order")
    if any(ei.get("bare") for ei in einfo):
        tags.append("m-einsum-with-no-timed-component")
    if any("same_rank_intersector" in ei for ei in einfo):
        tags.append("m-same-rank-intersector-across-einsums")
    if any("multi_rank_isect" in ei for ei in einfo):
        tags.append("m-multi-rank-intersector")
    for cn in confs.values():
        for c, d in cn["components"].items():
            if d.get("class") == "intersector":
                tags.append("m-" + d["type"])
            if c == "Seq0":
                tags.append("m-sequencer")
            if c == "L2":
                tags.append("m-three-level")
    if "style: eager" in extra:
        tags.append("m-eager")
    if any(ei.get("eager_two_roots") for ei in einfo):
        tags.append("m-eager-two-roots")
    spec = Spec(decl, exprs, rank_order=ro, loop_order=lo, spacetime=st, extra=extra,
                tags=sorted(set(tags)))
    spec.arch_info = {"configs": confs, "einsums": einfo, "format": fmt}
    return spec


def plain_of(spec):
    """Same Einsum/mapping without architecture, bindings, format and
    spacetime (spacetime would switch the canvas on in plain mode)."""
    s = spec.clone()
    s.extra = ""
    s.spacetime = None
    return s


def gen_merger(rnd, dynamic=None):
    """Merger family (gamma-like): an input whose partitioned ranks must be
    swizzled for the loop order, with a Merger bound to exactly that swizzle
    (init-ranks -> final-ranks).  Static (shape) or dynamic (occupancy) split."""
    X, K, Y = rnd.sample(["M", "K", "J", "N"], 3)
    decl = {"A": [X, K, Y]}
    out_ranks = [X] if rnd.random() < 0.6 else [X, Y]
    facs = [_acc("A", decl["A"])]
    if rnd.random() < 0.6:
        br = rnd.sample([X, K, Y], rnd.randint(1, 2))
        br = [r for r in [X, K, Y] if r in br]
        if rnd.random() < 0.5:
            br = [X, K, Y]
        decl["B"] = br
        facs.append(_acc("B", br))
        rnd.shuffle(facs)
    decl["Z"] = out_ranks
    e = Einsum(_acc("Z", out_ranks), [Term("times", facs)])
    if dynamic is None:
        dynamic = rnd.random() < 0.5
    sz = rnd.randint(2, 4)
    part = "uniform_occupancy(A.%d)" % sz if dynamic else "uniform_shape(%d)" % sz
    lo = [X, K + "1", Y, K + "0"]
    if dynamic:
        init, final = [K + "1", K + "0", Y], [K + "1", Y, K + "0"]
    else:
        init, final = [X, K + "1", K + "0", Y], [X, K + "1", Y, K + "0"]
    ninst = rnd.choice([1, 4])
    freq = rnd.choice([1000, 2000])
    arch = ["architecture:", "  accel:", "  - name: %s" % _level_name("System", 1), "    attributes:",
            "      clock_frequency: %d" % freq, "    subtree:",
            "    - name: %s" % _level_name("PE", ninst), "      local:",
            "      - name: Merge0", "        class: Merger", "        attributes:",
            "          inputs: %s" % rnd.choice(["16", "inf"]), "          comparator_radix: 16",
            "      - name: Mul0", "        class: compute", "        attributes:",
            "          type: mul"]
    b = ["bindings:", "  Z:", "  - config: accel", "    prefix: tmp/Z", "  - component: Merge0",
         "    bindings:", "    - tensor: A", "      init-ranks: [%s]" % ", ".join(init),
         "      final-ranks: [%s]" % ", ".join(final)]
    two = "B" in decl and decl["B"] == decl["A"]
    if two:
        # a second tensor on the same merger (the compiler refuses this today)
        b += ["    - tensor: B", "      init-ranks: [%s]" % ", ".join(init),
              "      final-ranks: [%s]" % ", ".join(final)]
    b += ["  - component: Mul0", "    bindings:", "    - op: mul"]
    fmt = ["format:"]
    for t, rs in decl.items():
        fmt += ["  %s:" % t, "    default:", "      rank-order: [%s]" % ", ".join(rs)]
        for r in rs:
            fmt += ["      %s:" % r, "        format: C", "        pbits: 64"]
    spec = Spec(decl, [e], partitioning={"Z": {K: [part]}}, loop_order={"Z": lo},
                spacetime={"Z": {"space": [], "time": list(lo)}},
                extra="\n".join(arch + b + fmt) + "\n",
                tags=["metrics", "m-merger", "m-merger-dynamic" if dynamic else "m-merger-static",
                      "m-einsums1", "m-configs1"])
    return spec


def gen_lf_shared(rnd):
    """One leader-follower intersector bound to the SAME rank in two Einsums
    with DIFFERENT leaders, the second leader being an input both Einsums
    read:  T = A * B (leader A);  Z = B * T (leader B)."""
    perm = rnd.sample(["M", "N", "K", "J"], rnd.randint(2, 3))
    r = rnd.choice(perm)

    def sub(must):
        rs = [x for x in perm if x in must or rnd.random() < 0.6]
        return rs
    ra, rb = sub([r]), sub([r])
    for x in perm:
        if x not in ra and x not in rb:
            (ra if rnd.random() < 0.5 else rb).append(x)
    ra = [x for x in perm if x in ra]
    rb = [x for x in perm if x in rb]
    all1 = [x for x in perm if x in ra or x in rb]
    out1 = [x for x in all1 if x == r or rnd.random() < 0.6]
    decl = {"A": ra, "B": rb, "T": out1}
    all2 = [x for x in perm if x in rb or x in out1]
    out2 = [x for x in all2 if rnd.random() < 0.6] or [all2[0]]
    decl["Z"] = out2
    e1 = Einsum(_acc("T", out1), [Term("times", [_acc("A", ra), _acc("B", rb)])])
    e2 = Einsum(_acc("Z", out2), [Term("times", [_acc("B", rb), _acc("T", out1)])])
    npe = rnd.choice([1, 4])
    arch = ["architecture:", "  accel:", "  - name: System", "    attributes:",
            "      clock_frequency: 1000", "    subtree:", "    - name: %s" % _level_name("PE", npe),
            "      local:", "      - name: Isect", "        class: Intersector",
            "        attributes:", "          type: leader-follower",
            "      - name: Mul0", "        class: compute", "        attributes:",
            "          type: mul"]
    b = ["bindings:",
         "  T:", "  - config: accel", "    prefix: tmp/T", "  - component: Isect", "    bindings:",
         "    - rank: %s" % r, "      leader: A", "  - component: Mul0", "    bindings:",
         "    - op: mul",
         "  Z:", "  - config: accel", "    prefix: tmp/Z", "  - component: Isect", "    bindings:",
         "    - rank: %s" % r, "      leader: B"]
    fmt = ["format:"]
    for t, rs in decl.items():
        fmt += ["  %s:" % t, "    default:", "      rank-order: [%s]" % ", ".join(rs)]
        for x in rs:
            fmt += ["      %s:" % x, "        format: C", "        cbits: 32", "        pbits: 32"]
    lo = {"T": all1, "Z": all2}
    st = {"T": {"space": [], "time": list(all1)}, "Z": {"space": [], "time": list(all2)}}
    return Spec(decl, [e1, e2], rank_order={t: list(rs) for t, rs in decl.items()}, loop_order=lo,
                spacetime=st, extra="\n".join(arch + b + fmt) + "\n",
                tags=["metrics", "m-leader-follower", "m-lf-same-rank-different-leaders",
                      "m-einsums2", "m-configs1"])


def gen_lf_affine(rnd):
    """Metrics mode on an affine Einsum: an intersector (any type; leader-
    follower with the first factor as leader) bound to the output's index rank
    where another operand is reached through index math:
        O[q] = G[q] * I[a*q + s] * F[s]"""
    a = rnd.choice([1, 1, 2])
    Q, S = rnd.randint(3, 6), rnd.randint(1, 3)
    ext = {"Q": Q, "S": S, "W": a * (Q - 1) + S}
    decl = {"G": ["Q"], "I": ["W"], "F": ["S"], "O": ["Q"]}
    g = Acc("G", [[(1, "q")]])
    i = Acc("I", [[(a, "q"), (1, "s")]])
    f = Acc("F", [[(1, "s")]])
    facs = [g, i, f]
    if rnd.random() < 0.3:
        facs = [g, f, i]
    e = Einsum(Acc("O", [[(1, "q")]]), [Term("times", facs)])
    lo = rnd.choice([["S", "Q"], ["Q", "S"]])
    kind = rnd.choice(["leader-follower", "leader-follower", "two-finger", "skip-ahead"])
    arch = ["architecture:", "  accel:", "  - name: System", "    attributes:",
            "      clock_frequency: 1000", "    local:", "    - name: Isect",
            "      class: Intersector", "      attributes:", "        type: %s" % kind,
            "    - name: Mul0", "      class: compute", "      attributes:", "        type: mul"]
    b = ["bindings:", "  O:", "  - config: accel", "    prefix: tmp/O", "  - component: Isect",
         "    bindings:", "    - rank: Q"]
    if kind == "leader-follower":
        b.append("      leader: G")
    b += ["  - component: Mul0", "    bindings:", "    - op: mul"]
    fmt = ["format:"]
    for t, rs in decl.items():
        fmt += ["  %s:" % t, "    default:", "      rank-order: [%s]" % ", ".join(rs)]
        for x in rs:
            fmt += ["      %s:" % x, "        format: C", "        cbits: 32", "        pbits: 64"]
    spec = Spec(decl, [e], loop_order={"O": lo}, spacetime={"O": {"space": [], "time": list(lo)}},
                extra="\n".join(arch + b + fmt) + "\n",
                tags=["metrics", "m-affine", "m-" + kind, "m-einsums1", "m-configs1", "S1"])
    spec._extents = ext
    return spec


def gen_part_metrics(rnd):
    """Partitioned Einsum in metrics mode (extensor / demo / C06-style):
    Z[m, n] = A[k, m] * B[k, n] with one or two ranks split by shape or by
    occupancy, formats and bindings written on the partitioned rank names."""
    decl = {"A": ["K", "M"], "B": ["K", "N"], "Z": ["M", "N"]}
    if rnd.random() < 0.3:
        decl = {"A": ["K", "M"], "B": ["K"], "Z": ["M"]}
    ranks = []
    for rs in decl.values():
        for r in rs:
            if r not in ranks:
                ranks.append(r)
    holders = {r: [t for t in ("A", "B") if r in decl[t]] for r in ranks}
    chosen = rnd.sample(ranks, rnd.choice([1, 1, 2]))
    parts, groups, syms = {}, [], {}
    tags = ["metrics", "m-partitioned", "m-einsums1", "m-configs1"]
    for r in ranks:
        if r in chosen:
            n = rnd.choice([1, 2])
            kind = rnd.choice(["shape", "occ", "occ", "mixed"])
            if kind == "mixed":
                n = 2            # a shape split with an occupancy split beneath it
            st = []
            for i in range(n):
                if kind == "shape" or (kind == "mixed" and i == 0):
                    if rnd.random() < 0.5:
                        nm = "%s%d" % (r, n - i - 1)
                        syms[nm] = rnd.randint(2, 4)
                        st.append("uniform_shape(%s)" % nm)
                    else:
                        st.append("uniform_shape(%d)" % rnd.randint(2, 4))
                else:
                    st.append("uniform_occupancy(%s.%d)" % (rnd.choice(holders[r]), rnd.randint(2, 5)))
            parts[r] = st
            groups.append([r + str(j) for j in range(n, -1, -1)])
            tags.append("m-part-" + kind)
            if kind == "occ" and n == 2:
                tags.append("m-part-occ-two-level")
        else:
            groups.append([r])
    from .mapping import interleave
    lo = interleave(rnd, groups, True)
    level = {r: [x for g in groups for x in g if g[0].startswith(r) and (x == r or x[len(r):].isdigit())]
             for r in ranks}

    def final(t):
        fr = [x for r in decl[t] for x in level[r]]
        return [x for x in lo if x in fr]
    facs = [_acc("A", decl["A"]), _acc("B", decl["B"])]
    rnd.shuffle(facs)
    e = Einsum(_acc("Z", decl["Z"]), [Term("times", facs)])
    fmt = ["format:"]
    fmt_bits = {}
    tens = [t for t in ("A", "B", "Z") if rnd.random() < 0.75] or ["A"]
    for t in tens:
        fr = final(t)
        fmt += ["  %s:" % t, "    default:", "      rank-order: [%s]" % ", ".join(fr)]
        for i, x in enumerate(fr):
            cb = rnd.choice([0, 32]) if i < len(fr) - 1 else 32
            pb = rnd.choice([0, 32]) if i < len(fr) - 1 else 64
            fmt += ["      %s:" % x, "        format: %s" % rnd.choice(["C", "U"])]
            if cb:
                fmt.append("        cbits: %d" % cb)
            if pb:
                fmt.append("        pbits: %d" % pb)
            fmt_bits[(t, x)] = (cb, pb)
    bufcls = rnd.choice(["Buffet", "Buffet", "Cache"])
    npe = rnd.choice([1, 4])
    arch = ["architecture:", "  accel:", "  - name: System", "    attributes:",
            "      clock_frequency: 1000", "    local:", "    - name: Mem", "      class: DRAM",
            "      attributes:", "        bandwidth: 512", "    subtree:",
            "    - name: %s" % _level_name("PE", npe), "      local:", "      - name: Buf",
            "        class: %s" % bufcls, "        attributes:", "          width: 64",
            "          depth: 256", "      - name: Mul0", "        class: compute",
            "        attributes:", "          type: mul"]
    isect = rnd.random() < 0.4 and len(holders.get("K", [])) == 2
    itype = rnd.choice(["two-finger", "skip-ahead", "leader-follower"])
    if isect:
        arch += ["      - name: Isect", "        class: Intersector", "        attributes:",
                 "          type: %s" % itype]
    b = ["bindings:", "  Z:", "  - config: accel", "    prefix: tmp/Z"]

    def tb(kind):
        s = []
        for t in tens:
            if rnd.random() < 0.2:
                continue
            for x in final(t):
                cb, pb = fmt_bits[(t, x)]
                for ty, bits in (("coord", cb), ("payload", pb)):
                    if not bits and rnd.random() < 0.7:
                        continue
                    s += ["    - tensor: %s" % t, "      rank: %s" % x, "      type: %s" % ty,
                          "      format: default"]
                    if kind == "buffet":
                        pos = lo.index(x)
                        s.append("      evict-on: %s" % rnd.choice(["root"] + lo[:pos]))
        return s
    mem = tb("dram")
    if mem:
        b += ["  - component: Mem", "    bindings:"] + mem
    buf = tb("buffet" if bufcls == "Buffet" else "cache")
    if buf:
        b += ["  - component: Buf", "    bindings:"] + buf
    b += ["  - component: Mul0", "    bindings:", "    - op: mul"]
    if rnd.random() < 0.5:
        # a sequencer, bound to loop ranks and/or to ranks the mapping splits away
        gone = [r for r in chosen] + [g for grp in groups for g in grp[1:-1] if len(grp) > 2 and False]
        pool = list(lo) + gone
        k = rnd.randint(1, min(3, len(pool)))
        rs = rnd.sample(pool, k)
        if gone and rnd.random() < 0.6 and not any(r in gone for r in rs):
            rs[0] = rnd.choice(gone)
        arch += ["      - name: Seq", "        class: Sequencer", "        attributes:",
                 "          num_ranks: %d" % len(pool)]
        b += ["  - component: Seq", "    bindings:"] + ["    - rank: %s" % r for r in rs]
        tags.append("m-sequencer")
        if any(r in gone for r in rs):
            tags.append("m-sequencer-on-split-rank")
    if isect:
        kl = rnd.choice(level["K"])
        if "K" in chosen and rnd.random() < 0.25:
            # bound to the rank the mapping splits away (KF-16: created, queried, never fed)
            kl = "K"
            tags.append("m-intersector-on-split-rank")
        b += ["  - component: Isect", "    bindings:", "    - rank: %s" % kl]
        if itype == "leader-follower":
            b.append("      leader: %s" % facs[0].name)
        tags.append("m-" + itype)
    spec = Spec(decl, [e], partitioning={"Z": parts}, loop_order={"Z": lo},
                spacetime={"Z": {"space": [], "time": list(lo)}},
                extra="\n".join(arch + b + fmt) + "\n", syms=syms, tags=sorted(set(tags)))
    return spec


def gen_reread_metrics(rnd):
    """Metrics-mode cascade in which a statically partitioned input of the
    first Einsum is read again by the second one under a different tiling
    (another size, another rank, or none): what the first Einsum's collection
    and dump code did to the tensor must not leak into the second."""
    two = rnd.random() < 0.6
    decl = {"A": ["K", "M"], "B": ["K"], "C": ["K"], "T": ["M"], "Z": ["M"]}
    if two:
        decl["B"] = rnd.choice([["K"], ["K", "M"]])
    if rnd.random() < 0.3:
        decl["C"] = ["K", "M"]
    f1 = [_acc("A", decl["A"]), _acc("B", decl["B"])]
    f2 = [_acc("A", decl["A"]), _acc("C", decl["C"])]
    if rnd.random() < 0.4:
        f2.append(_acc("T", decl["T"]))
    rnd.shuffle(f1)
    rnd.shuffle(f2)
    exprs = [Einsum(_acc("T", decl["T"]), [Term("times", f1)]),
             Einsum(_acc("Z", decl["Z"]), [Term("times", f2)])]
    parts, lo = {}, {}
    tags = ["metrics", "m-reread-partitioned", "m-einsums2", "m-configs1"]

    def tile(out, which):
        p, groups = {}, []
        for r in ("K", "M"):
            if r in which:
                n = which[r]
                p[r] = ["uniform_shape(%d)" % rnd.randint(2, 6) for _ in range(n)]
                groups.append([r + str(j) for j in range(n, -1, -1)])
            else:
                groups.append([r])
        from .mapping import interleave
        if p:
            parts[out] = p
        lo[out] = interleave(rnd, groups, True)
    w1 = {"K": rnd.choice([1, 1, 2])}
    if rnd.random() < 0.3:
        w1["M"] = 1
    kind = rnd.choice(["other-size", "other-size", "none", "other-rank", "same"])
    if kind == "other-size":
        w2 = {"K": rnd.choice([1, 1, 2])}
    elif kind == "none":
        w2 = {}
    elif kind == "other-rank":
        w2 = {"M": 1}
    else:
        w2 = dict(w1)
    tile("T", w1)
    tile("Z", w2)
    if kind == "same" and "T" in parts:
        parts["Z"] = {r: list(v) for r, v in parts["T"].items()}
    tags.append("m-reread-" + kind)
    # formats: for A (always) and some others, on root ranks or on the first Einsum's levels
    fmt = ["format:"]
    for t in ["A"] + [x for x in ("B", "C", "T", "Z") if rnd.random() < 0.4]:
        rs = list(decl[t])
        # level names only when both Einsums give this tensor the same levels (a format names
        # the ranks of every Einsum that touches the tensor)
        if t in ("A", "B") and rnd.random() < 0.5 and \
                all(w1.get(r) == w2.get(r) for r in decl[t]) and (t == "B" or True):
            rs = [x for x in lo["T"] if x.rstrip("0123456789") in decl[t]]
        fmt += ["  %s:" % t, "    default:", "      rank-order: [%s]" % ", ".join(rs)]
        for i, x in enumerate(rs):
            fmt += ["      %s:" % x, "        format: %s" % rnd.choice(["C", "U"]),
                    "        cbits: 32", "        pbits: %d" % (64 if i == len(rs) - 1 else 32)]
    arch = ["architecture:", "  accel:", "  - name: System", "    attributes:",
            "      clock_frequency: 1000", "    local:", "    - name: Mem", "      class: DRAM",
            "      attributes:", "        bandwidth: 512", "    subtree:",
            "    - name: %s" % _level_name("PE", rnd.choice([1, 4])), "      local:",
            "      - name: Mul0", "        class: compute",
            "        attributes:", "          type: mul"]
    b = ["bindings:"]
    for out in ("T", "Z"):
        b += ["  %s:" % out, "  - config: accel", "    prefix: tmp/%s" % out]
        if rnd.random() < 0.7:
            b += ["  - component: Mul0", "    bindings:", "    - op: mul"]
    st = {o: {"space": [], "time": list(lo[o])} for o in ("T", "Z")}
    spec = Spec(decl, exprs, partitioning=parts or None, loop_order=lo, spacetime=st,
                extra="\n".join(arch + b + fmt) + "\n", tags=sorted(set(tags)))
    # extents larger than the tile sizes, so that two tilings really differ
    spec._extents = {"K": rnd.randint(7, 13), "M": rnd.randint(3, 8)}
    return spec


def gen_alias_arch(rnd):
    """Two configurations that SHARE a level through a YAML anchor/alias (a common way to
    write "the same PE array under two memory systems"): the aliased level, its instance range
    and its components must mean the same in both.  2-3 chained Einsums, each bound to one of
    the configurations; the shared level holds the compute units (and sometimes a buffer)."""
    n = rnd.choice([2, 2, 3])
    ranks = rnd.sample(["M", "N", "K"], rnd.randint(1, 2))
    decl, exprs, prev = {}, [], None
    outs = ["T", "U", "Z"][:n - 1] + ["Z"]
    fresh = iter("ABCDEFGH")
    for i in range(n):
        out = outs[i] if i < n - 1 else "Z"
        a = next(fresh)
        decl[a] = list(ranks)
        fs = [_acc(a, ranks)]
        if prev:
            fs.append(_acc(prev, decl[prev]))
        else:
            b2 = next(fresh)
            decl[b2] = list(ranks)
            fs.append(_acc(b2, ranks))
        rnd.shuffle(fs)
        decl[out] = list(ranks)
        exprs.append(Einsum(_acc(out, ranks), [Term("times", fs)]))
        prev = out
    npe = rnd.choice([2, 4, 8])
    nchip = rnd.choice([1, 2])
    deep = rnd.random() < 0.4        # the aliased level sits under a Chip level in config B
    buf = rnd.random() < 0.5
    pe = ["    - &pe", "      name: PE[0..%d]" % (npe - 1), "      local:",
          "      - name: Mul", "        class: compute", "        attributes:",
          "          type: mul",
          "      - name: Add", "        class: compute", "        attributes:",
          "          type: add"]
    if buf:
        pe += ["      - name: Buf", "        class: Buffet", "        attributes:",
               "          width: 64", "          depth: 128"]
    fa, fb = rnd.choice([1000, 2000]), rnd.choice([1000, 500])
    arch = ["architecture:", "  cfgA:", "  - name: System", "    attributes:",
            "      clock_frequency: %d" % fa, "    local:", "    - name: MemA", "      class: DRAM",
            "      attributes:", "        bandwidth: 512", "    subtree:"] + pe
    arch += ["  cfgB:", "  - name: System", "    attributes:", "      clock_frequency: %d" % fb,
             "    local:", "    - name: MemB", "      class: DRAM", "      attributes:",
             "        bandwidth: 256", "    subtree:"]
    samename = rnd.random() < 0.35
    if samename:
        # no alias: configuration B declares its OWN level with the same component names but
        # another instance range (as tests/integration/outerspace.yaml reuses names)
        npe2 = rnd.choice([n2 for n2 in (1, 2, 4, 8, 16) if n2 != npe])
        own = [l.replace("    - &pe", "    -").replace("PE[0..%d]" % (npe - 1),
                                                        _level_name("PE", npe2)) for l in pe]
        own[0:2] = ["    - name: %s" % _level_name("PE", npe2)]
        arch += own
    elif deep:
        arch += ["    - name: %s" % _level_name("Chip", nchip), "      subtree:", "      - *pe"]
    else:
        arch += ["    - *pe"]
    b = ["bindings:"]
    cfgs = [rnd.choice(["cfgA", "cfgB"]) for _ in range(n)]
    if len(set(cfgs)) == 1:
        cfgs[-1] = "cfgB" if cfgs[0] == "cfgA" else "cfgA"
    fmt = ["format:"]
    for t, rs in decl.items():
        fmt += ["  %s:" % t, "    default:", "      rank-order: [%s]" % ", ".join(rs)]
        for r in rs:
            fmt += ["      %s:" % r, "        format: C", "        cbits: 32", "        pbits: 32"]
    st, lo = {}, {}
    for i, e in enumerate(exprs):
        out = e.out.name
        mem = "MemA" if cfgs[i] == "cfgA" else "MemB"
        b += ["  %s:" % out, "  - config: %s" % cfgs[i], "    prefix: tmp/%s%d" % (out, i)]
        tens = [a.name for a in e.inputs()] + [out]
        mb = []
        for t in tens:
            if rnd.random() < 0.7:
                for r in decl[t]:
                    mb += ["    - tensor: %s" % t, "      rank: %s" % r, "      type: payload",
                           "      format: default"]
        if mb:
            b += ["  - component: %s" % mem, "    bindings:"] + mb
            if buf and rnd.random() < 0.7:
                bb = []
                for l in mb:
                    bb.append(l)
                    if l.strip().startswith("format:"):
                        bb.append("      evict-on: root")
                b += ["  - component: Buf", "    bindings:"] + bb
        b += ["  - component: Mul", "    bindings:", "    - op: mul"]
        if rnd.random() < 0.4:
            b += ["  - component: Add", "    bindings:", "    - op: add"]
        k = rnd.randint(0, len(ranks))
        lo[out] = list(ranks)
        st[out] = {"space": list(ranks[k:]) if rnd.random() < 0.5 else [], "time": []}
        st[out]["time"] = [r for r in ranks if r not in st[out]["space"]]
    spec = Spec(decl, exprs, loop_order=lo, spacetime=st,
                extra="\n".join(arch + b + fmt) + "\n",
                tags=["metrics", "m-same-names-across-configs" if samename else "m-aliased-level",
                      "m-einsums%d" % n, "m-configs2"])
    return spec


def gen_occ_conv_metrics(rnd):
    """Metrics-mode convolution whose output rank is split by OCCUPANCY of the projected input
    (Q: uniform_occupancy(I.n), W: follow(Q)): the loop over Q1 needs its position to build the
    interval of the level below, with or without metrics collection.  The split carries a halo,
    which the reference model does not execute unless S == 1 - the text monitors still judge."""
    a, b = 1, rnd.choice([1, 1, 2])
    Q, S = rnd.randint(3, 8), rnd.choice([1, 1, 2, 3])
    ext = {"Q": Q, "S": S, "W": a * (Q - 1) + b * (S - 1) + 1}
    decl = {"I": ["W"], "F": ["S"], "O": ["Q"]}
    facs = [Acc("I", [[(a, "q"), (b, "s")]]), _acc("F", ["S"])]
    rnd.shuffle(facs)
    e = Einsum(_acc("O", ["Q"]), [Term("times", facs)])
    parts = {"Q": ["uniform_occupancy(I.%d)" % rnd.randint(1, 4)], "W": ["follow(Q)"]}
    lo = ["Q1", "S", "Q0"]
    npe = rnd.choice([1, 4])
    arch = ["architecture:", "  accel:", "  - name: System", "    attributes:",
            "      clock_frequency: 1000", "    local:", "    - name: Mem", "      class: DRAM",
            "      attributes:", "        bandwidth: 512", "    subtree:",
            "    - name: %s" % _level_name("PE", npe), "      local:",
            "      - name: Mul0", "        class: compute", "        attributes:",
            "          type: mul"]
    bnd = ["bindings:", "  O:", "  - config: accel", "    prefix: tmp/O"]
    if rnd.random() < 0.5:
        bnd += ["  - component: Mem", "    bindings:", "    - tensor: F", "      rank: S",
                "      type: payload", "      format: default"]
    bnd += ["  - component: Mul0", "    bindings:", "    - op: mul"]
    fmt = ["format:", "  F:", "    default:", "      rank-order: [S]", "      S:",
           "        format: C", "        cbits: 32", "        pbits: 32"]
    spec = Spec(decl, [e], partitioning={"O": parts}, loop_order={"O": lo},
                spacetime={"O": {"space": [], "time": list(lo)}},
                extra="\n".join(arch + bnd + fmt) + "\n",
                tags=["metrics", "m-occupancy-split-projected-rank", "m-einsums1", "m-configs1"])
    spec._extents = ext
    return spec


def gen_lf_take(rnd):
    """take() in metrics mode with ONE leader-follower intersector bound to two ranks of the
    Einsum, each with its own leader (the first holder of the rank in written order, so KF-6
    does not apply).  take() does not commute, so operands bound to the wrong payloads show:
        Z[m] = take(A[k], B[m, k], C[m], 0);  LF: rank M leader B, rank K leader A"""
    r1, r2 = rnd.sample(["M", "K", "N", "J"], 2)
    ops = [("A", [r2]), ("B", [r1, r2]), ("C", [r1])]
    if rnd.random() < 0.12:
        ops = [("A", [r2]), ("B", [r1, r2])]
    if rnd.random() < 0.3:
        ops[1] = ("B", [r2, r1])
    rnd.shuffle(ops)
    decl = {n: list(rs) for n, rs in ops}
    out = [r1] if rnd.random() < 0.7 else [r1, r2]
    decl["Z"] = out
    sel = rnd.randrange(len(ops))
    e = Einsum(_acc("Z", out), [Term("take", [_acc(n, rs) for n, rs in ops], sel)])
    lo = [r1, r2] if rnd.random() < 0.6 else [r2, r1]
    ro = {n: [r for r in lo if r in rs] for n, rs in decl.items()}

    def leader(r):
        hs = [n for n, rs in ops if r in rs]
        return hs[0] if len(hs) >= 2 else None
    binds = [(r, leader(r)) for r in (r1, r2) if leader(r)]
    rnd.shuffle(binds)
    arch = ["architecture:", "  accel:", "  - name: System", "    attributes:",
            "      clock_frequency: 1000", "    local:", "    - name: LF", "      class: Intersector",
            "      attributes:", "        type: leader-follower"]
    b = ["bindings:", "  Z:", "  - config: accel", "    prefix: tmp/Z", "  - component: LF",
         "    bindings:"]
    for r, l in binds:
        b += ["    - rank: %s" % r, "      leader: %s" % l]
    fmt = ["format:", "  Z:", "    default:", "      rank-order: [%s]" % ", ".join(ro["Z"])]
    for r in ro["Z"]:
        fmt += ["      %s:" % r, "        format: C", "        pbits: 32"]
    tags = ["metrics", "m-take", "m-leader-follower", "m-einsums1", "m-configs1"]
    if len(binds) == 2 and binds[0][1] != binds[1][1]:
        tags.append("m-lf-two-ranks-two-leaders")
    return Spec(decl, [e], rank_order=ro, loop_order={"Z": lo},
                spacetime={"Z": {"space": [], "time": list(lo)}},
                extra="\n".join(arch + b + fmt) + "\n", tags=tags)


def gen_flat_out_metrics(rnd):
    """Metrics mode with a flatten() whose ranks ALL belong to the output (the output itself
    is built flattened): the explicit shape of the output constructor must not name the
    flattened rank (KF-15)."""
    r1, r2 = rnd.sample(["M", "N", "K", "J"], 2)
    decl = {"A": [r1, r2], "Z": [r1, r2]}
    facs = [_acc("A", [r1, r2])]
    if rnd.random() < 0.6:
        br = rnd.choice([[r1], [r2], [r1, r2]])
        decl["B"] = br
        facs.append(_acc("B", br))
        rnd.shuffle(facs)
    e = Einsum(_acc("Z", [r1, r2]), [Term("times", facs)])
    flat = r1 + r2
    parts = {"(%s, %s)" % (r1, r2): ["flatten()"]}
    lo = [flat]
    if rnd.random() < 0.4:
        parts[flat] = ["uniform_occupancy(A.%d)" % rnd.randint(2, 4)]
        lo = [flat + "1", flat + "0"]
    arch = ["architecture:", "  accel:", "  - name: System", "    attributes:",
            "      clock_frequency: 1000", "    local:", "    - name: Mul0", "      class: compute",
            "      attributes:", "        type: mul"]
    b = ["bindings:", "  Z:", "  - config: accel", "    prefix: tmp/Z", "  - component: Mul0",
         "    bindings:", "    - op: mul"]
    fmt = ["format:", "  A:", "    default:", "      rank-order: [%s, %s]" % (r1, r2)]
    for r in (r1, r2):
        fmt += ["      %s:" % r, "        format: C", "        cbits: 32", "        pbits: 32"]
    return Spec(decl, [e], partitioning={"Z": parts}, loop_order={"Z": lo},
                spacetime={"Z": {"space": [], "time": list(lo)}},
                extra="\n".join(arch + b + fmt) + "\n",
                tags=["metrics", "m-flattened-output", "m-einsums1", "m-configs1"])
