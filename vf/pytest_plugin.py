"""pytest plugin: the repository's own test-suite as a monitored workload.

    cd /repo && PYTHONPATH=/verif:/repo VF_PLUGIN_OUT=out.json \
        /venv/bin/python -m pytest -q -p no:cacheprovider -p vf.pytest_plugin tests

Every HiFiber object any test constructs successfully is handed to the output
monitors (C06 scope, C09 tree equality, C10 order).  The plugin never changes
a test's outcome: every monitor runs inside try/except and nothing is raised.
"""
import json
import os

RECORDS = []
STATE = {"constructed": 0, "monitored": 0, "errors": [], "flow": []}


def _spec_from_objects(einsum, mapping):
    """Independent reading of the parsed objects into a vf Spec (for the
    supplied-name set): declaration dict, Lark expression trees through the
    C17 extractor, rank orders, symbolic sizes from the partitioning trees."""
    from .spec import Acc, Term, Einsum, Spec
    from .checks.c17 import ext_einsum
    decl = {k: list(v) for k, v in einsum.get_declaration().items()}
    exprs = []
    for tree in einsum.get_expressions():
        st = ext_einsum(tree)
        out = Acc(st["out"][0], st["out"][1])
        terms = []
        for kind, fs, sel in st["terms"]:
            facs = [f[1] if f[0] == "var" else Acc(f[1], f[2]) for f in fs]
            terms.append(Term(kind, facs, sel))
        exprs.append(Einsum(out, terms))
    ro = dict(mapping.get_rank_orders()) or None
    syms = {}
    for ps in mapping.get_partitioning().values():
        for parts in ps.values():
            for p in parts:
                for s in p.find_data("str_sz"):
                    syms[str(s.children[0])] = 1
    st = mapping.get_spacetime() or None
    spec = Spec(decl, exprs, rank_order=ro, syms=syms)
    spec.spacetime = {k: {"space": [], "time": []} for k in st} if st else None
    return spec


def _monitor(h, einsum, mapping, arch, bindings, format_, flow_records):
    from .monitors import scope, treeeq, order
    rec = {"problems": []}
    text = str(h)
    rec["lines"] = len(text.splitlines())
    mode = "metrics" if (arch and bindings and format_ and arch.get_spec()) else "plain"
    rec["mode"] = mode
    try:
        d, sz = treeeq.compare_stmt(h.hifiber, text)
        rec["tree_nodes"] = sz
        if d:
            rec["problems"].append(dict(d, kind="tree-text-mismatch"))
    except treeeq.TreeUnsupported as e:
        rec["tree_unsupported"] = str(e)
    spec = _spec_from_objects(einsum, mapping)
    probs, stats = scope.analyse(text, scope.supplied_names(spec, mode))
    rec["reads"] = stats.get("reads", 0)
    rec["exprs"] = "; ".join(e.text() for e in spec.exprs)
    from . import kf
    for p in probs:
        p["known_finding"] = kf.name_kf(spec, p.get("name")) if p.get("kind") == "unbound-read" \
            else None
    rec["problems"].extend(probs)
    for fr in flow_records:
        p, s = order.check_record(fr)
        rec["graph_nodes"] = rec.get("graph_nodes", 0) + s["nodes"]
        rec["problems"].extend(p)
    return rec


def pytest_configure(config):
    try:
        import teaal.trans.hifiber as TH
        from teaal.ir.flow_graph import FlowGraph

        class RecFlowGraph(FlowGraph):
            def _FlowGraph__sort(self):
                FlowGraph._FlowGraph__sort(self)
                self._vf_presort = list(self.sorted)

            def _FlowGraph__hoist(self):
                FlowGraph._FlowGraph__hoist(self)
                try:
                    STATE["flow"].append({"graph": self.graph.copy(),
                                          "presort": self._vf_presort,
                                          "posthoist": list(self.sorted),
                                          "loop_order": list(
                                              self.program.get_loop_order().get_ranks())})
                except Exception as e:  # pragma: no cover
                    STATE["errors"].append("flow: %r" % (e,))
        TH.FlowGraph = RecFlowGraph
        orig = TH.HiFiber.__init__

        def init(self, einsum, mapping, arch=None, bindings=None, format_=None):
            STATE["flow"] = []
            orig(self, einsum, mapping, arch, bindings, format_)
            STATE["constructed"] += 1
            try:
                RECORDS.append(_monitor(self, einsum, mapping, arch, bindings, format_,
                                        list(STATE["flow"])))
                STATE["monitored"] += 1
            except Exception as e:
                STATE["errors"].append("%s: %s" % (type(e).__name__, e))
        TH.HiFiber.__init__ = init
    except Exception as e:  # pragma: no cover
        STATE["errors"].append("configure: %r" % (e,))


def pytest_sessionfinish(session, exitstatus):
    out = os.environ.get("VF_PLUGIN_OUT")
    if not out:
        return
    try:
        with open(out, "w") as f:
            json.dump({"constructed": STATE["constructed"], "monitored": STATE["monitored"],
                       "errors": STATE["errors"][:20], "exitstatus": int(exitstatus),
                       "records": RECORDS}, f, default=repr)
    except Exception:  # pragma: no cover
        pass
