"""C19 - omitted mapping means the canonical default.  Oracle: the text emitted
for a spec with a mapping section omitted is identical to the text emitted
when that section is written out explicitly, the explicit default being
computed by vf/monitors/defaults.py from the statement alone."""
import random

from .. import case as C, run
from ..gen import einsum as GE, mapping as GM, cascade as GC, affine as GA
from ..monitors import defaults as D
from . import common

ID = "C19"
NEEDS_MODEL = False
LEVEL = "exploration"
N = {"quick": 1600, "thorough": 48000}
TECHNIQUE = ("runtime monitoring: differential text monitor on the real compiler - section omitted "
             "vs the independently computed default written out - over seeded generated specs")


def flatten_in_place_spec(rnd):
    """flatten() of two or three ranks that are adjacent and in order in the default loop
    order (optionally with occupancy of the flattened rank): replaced in place."""
    for _ in range(60):
        b, info = GE.gen_plain(rnd, products_only=True, allow_take=False, allow_scalar=False,
                               max_ranks=4)
        e = b.exprs[0]
        order = D.root_order(e)
        cands = []
        for a in e.inputs():
            rs = b.decl[a.name]
            for n in (2, 3):
                for j in range(len(order) - n + 1):
                    g = order[j:j + n]
                    if all(r in rs for r in g) and sum(1 for r in g if r in b.decl[e.out.name]) <= 1:
                        cands.append((a.name, g))
        if not cands:
            continue
        t, g = rnd.choice(cands)
        s = b.clone()
        parts = {"(%s)" % ", ".join(g): ["flatten()"]}
        if rnd.random() < 0.5:
            parts["".join(g)] = ["uniform_occupancy(%s.%d)" % (t, rnd.randint(2, 5))]
        s.partitioning = {e.out.name: parts}
        s.loop_order = None
        s.tags = list(s.tags) + ["flatten-in-place"]
        return s
    return None


def affine_contracted_spec(rnd):
    """An index expression over two (or three) CONTRACTED variables that are first seen inside
    it, with a coefficient on any of them: `Z[m] = A[2 * k + j, m] * B[j] * C[k]`.  The default
    loop order lists them as written (K before J), whatever their coefficients."""
    from ..spec import Acc, Term, Einsum, Spec
    pool = rnd.choice([["M", "K", "J", "N"], ["P", "S", "R", "T"], ["X", "J", "K", "H"]])
    o, v1, v2, v3 = pool
    three = rnd.random() < 0.3
    vs = [v1, v2] + ([v3] if three else [])
    rnd.shuffle(vs)
    coefs = [rnd.choice([1, 2, 2, 3, 4]) for _ in vs]
    if all(c == 1 for c in coefs):
        coefs[0] = 2
    aff = [(c, v.lower()) for c, v in zip(coefs, vs)]
    a_idx = [aff, [(1, o.lower())]]
    a_decl = ["W", o]
    if rnd.random() < 0.5:
        a_idx.reverse()
        a_decl.reverse()
    facs = [Acc("A", a_idx)] + [Acc(n, [[(1, v.lower())]]) for n, v in zip("BCD", sorted(vs))]
    if rnd.random() < 0.35:
        rnd.shuffle(facs)
    decl = {"Z": [o], "A": a_decl}
    for n, v in zip("BCD", sorted(vs)):
        decl[n] = [v]
    e = Einsum(Acc("Z", [[(1, o.lower())]]), [Term("times", facs)])
    return Spec(decl, [e], tags=["affine-contracted"])


def base_spec(rnd, i):
    if i % 13 == 12:
        return flatten_in_place_spec(rnd), "flatten-in-place"
    if i % 13 == 11:
        return affine_contracted_spec(rnd), "affine-contracted"
    k = i % 6
    if k in (0, 1):
        s, info = GE.gen_plain(rnd)
        tag = "plain"
    elif k == 2:
        b, info = GE.gen_plain(rnd, max_ranks=3)
        s = GM.add_shape_partitioning(rnd, b, info, ordered=True)
        tag = "shape"
    elif k == 3:
        s = None
        for _ in range(20):
            b, info = GE.gen_plain(rnd, products_only=True, allow_take=False, max_ranks=3)
            s = GM.add_occupancy(rnd, b, info)
            if s is not None:
                break
        tag = "occupancy"
    elif k == 4:
        s = GC.gen_cascade(rnd, mapped=False)
        tag = "cascade"
        if rnd.random() < 0.5:
            # some Einsums of the cascade shape-partitioned, the others not
            for ei, e in enumerate(s.exprs):
                info = GC._einsum_info(s, e)
                if sum(1 for e2 in s.exprs if e2.out.name == e.out.name) > 1:
                    continue
                if info["ranks"] and rnd.random() < 0.5:
                    s = GM.add_shape_partitioning(rnd, s, info, ordered=True, ei=ei)
            if s.partitioning:
                s.tags.append("cascade-partly-partitioned")
    else:
        s, ext, info = GA.gen_affine(rnd, rnd.choice(["S1", "S2", "S3"]))
        tag = "affine"
    return s, tag


def variants(rnd, spec):
    """(omitted-spec, explicit-spec, what) pairs."""
    out = []
    full = spec.clone()
    # explicit everything
    full.rank_order = dict(D.default_rank_order(spec), **(spec.rank_order or {}))
    lo = dict(spec.loop_order or {})
    # which sections to omit
    which = rnd.choice(["loop-order", "loop-order", "rank-order", "both", "all"])
    om = spec.clone()
    ex = spec.clone()
    if which in ("loop-order", "both", "all"):
        om.loop_order = None
        # (an output written by two Einsums has ONE entry for both: left omitted on both sides)
        ex.loop_order = {e.out.name: D.default_loop_order(spec, e) for e in spec.exprs
                         if sum(1 for e2 in spec.exprs if e2.out.name == e.out.name) == 1}
        if rnd.random() < 0.3 and len(spec.exprs) > 1:
            # omit for one Einsum only
            keep = rnd.choice(spec.exprs).out.name
            om.loop_order = {k: v for k, v in ex.loop_order.items() if k != keep} or None
    if which in ("rank-order", "both", "all"):
        om.rank_order = None
        ex.rank_order = D.default_rank_order(spec)
        if which == "rank-order":
            # keep the (explicit) loop order on both sides
            pass
    if which == "all" and not spec.partitioning:
        om.partitioning = None
        ex.partitioning = {e.out.name: {} for e in spec.exprs}
    elif spec.partitioning and len(spec.exprs) > 1 and which in ("all", "both", "loop-order"):
        # entries present for some Einsums only: the explicit side writes the default ("no
        # partitioning") for the others, before or after the real entries
        rest = {e.out.name: {} for e in spec.exprs if e.out.name not in spec.partitioning}
        if rest:
            ex.partitioning = dict(rest, **spec.partitioning) if rnd.random() < 0.5 \
                else dict(spec.partitioning, **rest)
    out.append((om, ex, which))
    return out


def shard(tier, seed, shard, nshards):
    st = common.Stats()
    n = N[tier] // nshards
    for i in range(n):
        rnd = random.Random("%s-%d-%d-%d" % (ID, seed, shard, i))
        spec, tag = base_spec(rnd, i)
        if spec is None:
            continue
        if any(D.take_before_product(e) for e in spec.exprs) or D.has_flatten(spec):
            st.bump("monitor", "excluded")
            continue
        for om, ex, which in variants(rnd, spec):
            st.evaluations += 1
            a = run.compile_yaml(om.yaml(), "plain")
            b = run.compile_yaml(ex.yaml(), "plain")
            if not a.ok or not b.ok:
                if a.ok != b.ok:
                    cs = C.Case(om, {}, {}, {}, note={"explicit": ex.yaml(), "which": which})
                    st.violations.append(C.violation(
                        ID, cs, [{"kind": "accepted-differs", "omitted": a.error,
                                  "explicit": b.error}],
                        "omitting %s changes acceptance: omitted=%s explicit=%s on `%s`" % (
                            which, a.error, b.error, om.exprs[0].text())))
                st.bump("status", "rejected" if (a.rejected or b.rejected) else "crash")
                st.bump("rejected_msgs", common._short(a.error or b.error))
                continue
            st.bump("status", "ok")
            st.bump("monitor", "pairs-compared")
            st.bump("strata_ok", tag)
            st.bump("strata_ok", "omit-" + which)
            if "cascade-partly-partitioned" in om.tags and ex.partitioning != om.partitioning:
                st.bump("strata_ok", "default-partitioning-entries-written")
            st.keys.add(C.spec_key(om, "plain", which))
            if a.text != b.text:
                la, lb = a.text.splitlines(), b.text.splitlines()
                d = next((j for j in range(min(len(la), len(lb))) if la[j] != lb[j]),
                         min(len(la), len(lb)))
                cs = C.Case(om, {}, {}, {}, note={"explicit": ex.yaml(), "which": which})
                kfid = None
                st.violations.append(C.violation(
                    ID, cs, [{"kind": "default-differs", "which": which, "line": d,
                              "omitted": la[d:d + 2], "explicit": lb[d:d + 2],
                              "explicit_loop_order": ex.loop_order}],
                    "omitting %s != writing the default on `%s`: line %d %r vs %r" % (
                        which, "; ".join(e.text() for e in om.exprs), d, la[d:d + 1], lb[d:d + 1]),
                    kfid))
            elif len(st.samples) < 2:
                st.samples.append({"omitted": om.yaml(), "explicit": ex.yaml(), "which": which,
                                   "identical_text_lines": len(a.text.splitlines())})
    return st.result()


def replay(v):
    from ..spec import Spec
    from ..yamlspec import spec_from_yaml
    c = v["case"]
    a = run.compile_yaml(c["yaml"], "plain")
    b = run.compile_yaml(c["note"]["explicit"], "plain")
    if a.ok and b.ok and a.text == b.text:
        return []
    return [{"summary": "omitted vs explicit default still differ (%s)" % c["note"]["which"],
             "known_finding": v.get("known_finding")}]


def finalize(results, counters, tier, seed):
    inc = []
    mon = counters.get("monitor", {})
    if mon.get("pairs-compared", 0) < N[tier] // 4:
        inc.append("too few pairs compared: %r" % mon)
    miss = [s for s in ("plain", "shape", "occupancy", "cascade", "affine", "affine-contracted", "flatten-in-place",
                        "default-partitioning-entries-written",
                        "omit-loop-order",
                        "omit-rank-order", "omit-both", "omit-all")
            if counters.get("strata_ok", {}).get(s, 0) == 0]
    if miss:
        inc.append("strata never compared: %r" % miss)
    cov = {"rule": "C01/C02/C03(splits)/C04/C05 Einsums x which sections are omitted (loop-order, "
                   "rank-order, both, everything); sums with a take() term before a product term and "
                   "flatten() mappings excluded, except a flatten() of ranks adjacent and in order in the "
                   "default order, which is replaced in place; distinct = (spec, omitted sections); non-trivial = "
                   "both variants compiled and were compared"}
    return cov, ["default computed from the statement: declared rank order; loop order = output "
                 "ranks as written, then remaining ranks by first appearance reading the expression "
                 "left to right, each split rank expanded in place outermost->innermost"], inc
