"""Generator for Einsums with integer-affine accesses (convolution, stride,
dilation, subsampling) and shape partitioning of the index-math ranks."""
from ..spec import Acc, Term, Einsum, Spec
from .mapping import interleave

DIMS = [("Q", "S", "W"), ("P", "R", "H")]
ALT_DIMS = [("M", "T", "V"), ("X", "Y", "U"), ("Q", "S", "V"), ("P", "S", "W"), ("W", "R", "Q")]


def gen_affine(rnd, stratum=None):
    """Returns (spec, extents, info).  Extents are *consistent*: the accessed
    rank's extent is exactly max reachable coordinate + 1.

    strata: S1 unpartitioned; S2 one-level split of the output rank with
    follow, input level looped before the output's level 0; S3 multi-level
    split without halo (subsampling); S4 multi-level split with halo;
    S5 coefficient 3/5/6 looped over the input rank."""
    if stratum is None:
        stratum = rnd.choice(["S1", "S1", "S2", "S2", "S3", "S6", "S8", "S9", "S10", "S11", "S12"])
    if stratum == "S12":
        return gen_affine_2out(rnd)
    if stratum == "S11":
        return gen_affine3(rnd)
    if stratum == "S9":
        return gen_affine2(rnd)
    if stratum == "S10":
        return gen_affine_out(rnd)
    dims = 1 if stratum in ("S4", "S5", "S6", "S7") else rnd.randint(1, 2)
    pairs = DIMS[:dims]
    if rnd.random() < 0.3:
        # other rank names for the same index expressions
        if dims == 1:
            pairs = [rnd.choice(ALT_DIMS)]
        else:
            pairs = [("M", "T", "V"), ("X", "Y", "U")]
    channel = rnd.random() < 0.3
    out_idx, i_idx, f_idx = [], [], []
    ext = {}
    parts = {}
    groups = []
    info = {"stratum": stratum, "dims": [], "tags": [stratum]}
    part_dim = rnd.randrange(dims)
    for di, (q, s, w) in enumerate(pairs):
        if stratum in ("S6", "S7"):
            a, b, kind = rnd.choice([1, 1, 2]), rnd.choice([1, 1, 2]), "conv"
        elif stratum == "S5":
            a, b, kind = rnd.choice([3, 5, 6]), 1, "conv"
        elif stratum == "S3":
            a, b, kind = rnd.choice([1, 2, 4]), 0, "sub"
        elif stratum == "S4":
            a, b, kind = rnd.choice([1, 2]), rnd.choice([1, 2]), "conv"
        else:
            a = rnd.choice([1, 1, 2, 4])
            b = rnd.choice([1, 1, 2, -1])
            kind = rnd.choice(["conv", "conv", "sub"])
        Q = rnd.randint(2, 9)
        S = rnd.randint(1, 4)
        out_idx.append([(1, q.lower())])
        if kind == "sub":
            i_idx.append([(a, q.lower())])
            ext[q] = Q
            ext[w] = a * (Q - 1) + 1
            halo = 0
            lr = [q]
        else:
            i_idx.append([(a, q.lower()), (b, s.lower())])
            f_idx.append((s, [(1, s.lower())]))
            ext[q] = Q
            ext[s] = S
            ext[w] = a * (Q - 1) + max(0, b * (S - 1)) + 1
            halo = abs(b) * (S - 1)
            if stratum == "S5":
                ch = "qw"
            elif stratum == "S6":
                ch = "qs"
            elif b > 0:
                ch = rnd.choice(["qs", "qw"])
            else:
                ch = "qs"
            lr = {"qs": [q, s], "qw": [q, w]}[ch]
            if ch == "qw":
                info["tags"].append("loop-input-rank")
        nlev = 0
        if stratum == "S6":
            # the filter rank is partitioned (shape or occupancy); the output rank is not
            k = rnd.choice(["shape", "shape", "occ"])
            if k == "shape":
                parts[s] = ["uniform_shape(%d)" % rnd.randint(1, 3)]
            else:
                parts[s] = ["uniform_occupancy(F.%d)" % rnd.randint(1, 3)]
            groups.append([s + "1", s + "0"])
            groups.append([q])
            info["tags"].append("filter-partitioned")
            info["dims"].append({"a": a, "b": b, "kind": kind, "nlev": 0, "halo": halo,
                                 "q": q, "s": s, "w": w})
            continue
        if stratum == "S7":
            # the INPUT rank is partitioned and the output rank follows it
            n7 = rnd.choice([1, 1, 2])
            parts[w] = ["%s(%d)" % (rnd.choice(["uniform_shape", "uniform_shape", "nway_shape"]),
                                    rnd.randint(2, 5)) for _ in range(n7)]
            wl = [w + str(j) for j in range(n7, -1, -1)]
            if rnd.random() < 0.5:
                parts[q] = ["follow(%s)" % w]
                ql = [q + str(j) for j in range(n7, -1, -1)]
                groups.append(rnd.choice([wl + [s], wl[:-1] + [q + "0", s], ql + [s]]))
                info["tags"].append("input-partitioned-output-follows")
            else:
                # the other INPUT's rank follows the partitioned input rank
                parts[s] = ["follow(%s)" % w]
                sl = [s + str(j) for j in range(n7, -1, -1)]
                groups.append(rnd.choice([wl + [q], [q] + wl, wl[:-1] + [q, w + "0"], sl + [q]]))
                info["tags"].append("input-partitioned-filter-follows")
            info["follower"] = "q" if q in parts else "s"
            info["dims"].append({"a": a, "b": b, "kind": kind, "nlev": n7, "halo": halo,
                                 "q": q, "s": s, "w": w})
            continue
        want_part = stratum in ("S2", "S3", "S4") and di == part_dim
        if want_part or (stratum in ("S2",) and rnd.random() < 0.5):
            if stratum == "S2":
                nlev = 1
            elif stratum == "S3":
                nlev = rnd.randint(2, 3)
            else:
                nlev = 2
            st = []
            for j in range(nlev):
                k = rnd.choice(["uniform_shape", "uniform_shape", "nway_shape"]) if j == 0 \
                    else "uniform_shape"
                st.append("%s(%d)" % (k, rnd.randint(1, 5)))
            parts[q] = st
            parts[w] = ["follow(%s)" % q]
            ql = [q + str(j) for j in range(nlev, -1, -1)]
            if kind != "sub" and lr == [q, w]:
                groups.append(ql[:nlev] + [w + "0", q + "0"])
            elif kind != "sub":
                groups.append(ql)
                groups.append([s])
            else:
                groups.append(ql)
            info["tags"].append("partitioned")
            if any(x.startswith("nway") for x in st):
                info["tags"].append("nway")
            if halo:
                info["tags"].append("halo")
        else:
            groups.extend([[r] for r in lr])
        info["dims"].append({"a": a, "b": b, "kind": kind, "nlev": nlev, "halo": halo,
                             "q": q, "s": s, "w": w})
    if sum(1 for d in info["dims"] if d["nlev"]) >= 2:
        info["tags"].append("both-dims-partitioned")
    decl = {"I": [p[2] for p in pairs], "O": [p[0] for p in pairs]}
    i_acc_idx = list(i_idx)
    o_acc_idx = list(out_idx)
    f_ranks = [r for r, _ in f_idx]
    f_acc_idx = [ix for _, ix in f_idx]
    if channel:
        # shared channel rank C contracted between I and F (if F exists) or kept
        decl["I"] = ["C"] + decl["I"]
        i_acc_idx = [[(1, "c")]] + i_acc_idx
        ext["C"] = rnd.randint(1, 3)
        if f_ranks:
            f_ranks = ["C"] + f_ranks
            f_acc_idx = [[(1, "c")]] + f_acc_idx
        else:
            decl["O"] = ["C"] + decl["O"]
            o_acc_idx = [[(1, "c")]] + o_acc_idx
        groups.append(["C"])
        info["tags"].append("channel")
    factors = [Acc("I", i_acc_idx)]
    if f_ranks:
        decl["F"] = f_ranks
        factors.append(Acc("F", f_acc_idx))
    if stratum == "S8" or (stratum in ("S1", "S2", "S3") and rnd.random() < 0.2):
        # an extra operand indexed by (some of) the output's index variables
        ov = [ix for ix in out_idx]
        k = rnd.randint(1, len(ov))
        sel = sorted(rnd.sample(range(len(ov)), k))
        decl["B"] = [pairs[i][0] for i in sel]
        factors.append(Acc("B", [ov[i] for i in sel]))
        info["tags"].append("extra-output-operand")
    if rnd.random() < 0.5:
        factors.reverse()
    e = Einsum(Acc("O", o_acc_idx), [Term("times", factors)])
    lo = interleave(rnd, groups, True)
    spec = Spec(decl, [e], partitioning=({"O": parts} if parts else None),
                loop_order={"O": lo}, tags=info["tags"])
    return spec, ext, info


def gen_affine2(rnd):
    """Stratum S9: TWO operands reached through index math.
      A  O[q] = I[a*q + b*s] * J[a2*q + b2*v] * F[s] * K[v]   (own filter variables)
      B  O[q] = I[q + s] * J[q + s] * F[s]                    (same expression, ranks W and H)
      C  O[q] = I[q + s] * J[q + 2*s] * F[s], I and J both declared on W
         (the compiler refuses C: two expressions for one rank)
    Optionally the output rank is shape-partitioned with BOTH input ranks
    following it."""
    var = rnd.choice(["A", "A", "B", "C"])
    Q = rnd.randint(2, 8)
    S = rnd.randint(1, 4)
    ext = {"Q": Q, "S": S}
    tags = ["S9", "two-affine-operands", "S9-" + var]
    if var == "A":
        a, b = rnd.choice([1, 1, 2]), rnd.choice([1, 1, 2])
        a2, b2 = rnd.choice([1, 1, 2]), rnd.choice([1, 2])
        V = rnd.randint(1, 5)
        ext["V"] = V
        ext["W"] = a * (Q - 1) + b * (S - 1) + 1
        ext["H"] = a2 * (Q - 1) + b2 * (V - 1) + 1
        decl = {"I": ["W"], "J": ["H"], "F": ["S"], "K": ["V"], "O": ["Q"]}
        facs = [Acc("I", [[(a, "q"), (b, "s")]]), Acc("J", [[(a2, "q"), (b2, "v")]]),
                Acc("F", [[(1, "s")]]), Acc("K", [[(1, "v")]])]
        loops = [["S"], ["V"]]
        halo = {"W": b * (S - 1), "H": b2 * (V - 1)}
    elif var == "B":
        ext["W"] = Q + S - 1
        ext["H"] = Q + S - 1
        decl = {"I": ["W"], "J": ["H"], "F": ["S"], "O": ["Q"]}
        facs = [Acc("I", [[(1, "q"), (1, "s")]]), Acc("J", [[(1, "q"), (1, "s")]]),
                Acc("F", [[(1, "s")]])]
        loops = [["S"]]
        halo = {"W": S - 1, "H": S - 1}
    else:
        ext["W"] = Q + 2 * (S - 1)
        decl = {"I": ["W"], "J": ["W"], "F": ["S"], "O": ["Q"]}
        facs = [Acc("I", [[(1, "q"), (1, "s")]]), Acc("J", [[(1, "q"), (2, "s")]]),
                Acc("F", [[(1, "s")]])]
        loops = [["S"]]
        halo = {"W": 2 * (S - 1)}
    rnd.shuffle(facs)
    e = Einsum(Acc("O", [[(1, "q")]]), [Term("times", facs)])
    parts = None
    if rnd.random() < 0.5:
        parts = {"Q": ["uniform_shape(%d)" % rnd.randint(2, 5)]}
        for r in halo:
            parts[r] = ["follow(Q)"]
        groups = [["Q1", "Q0"]] + loops
        tags += ["partitioned", "two-followers"]
        if any(halo.values()):
            tags.append("halo")
    else:
        groups = [["Q"]] + loops
    lo = interleave(rnd, groups, True)
    spec = Spec(decl, [e], partitioning=({"O": parts} if parts else None),
                loop_order={"O": lo}, tags=tags)
    return spec, ext, {"stratum": "S9", "tags": tags, "dims": []}


def gen_affine_out(rnd):
    """Stratum S10: the OUTPUT is reached through index math (transposed
    convolution):  O[a*q + b*s] = I[q] * F[s]  (optionally a channel rank)."""
    a, b = rnd.choice([1, 1, 2]), rnd.choice([1, 1, 2])
    Q, S = rnd.randint(2, 7), rnd.randint(1, 4)
    ext = {"Q": Q, "S": S, "W": a * (Q - 1) + b * (S - 1) + 1}
    decl = {"I": ["Q"], "F": ["S"], "O": ["W"]}
    i_idx, f_idx, o_idx = [[(1, "q")]], [[(1, "s")]], [[(a, "q"), (b, "s")]]
    other = rnd.choice(["Q", "S"])
    groups = [["W"], [other]]
    tags = ["S10", "affine-output"]
    if rnd.random() < 0.3:
        ext["C"] = rnd.randint(1, 3)
        decl["I"] = ["C", "Q"]
        decl["F"] = ["C", "S"]
        i_idx = [[(1, "c")]] + i_idx
        f_idx = [[(1, "c")]] + f_idx
        groups.append(["C"])
        tags.append("channel")
    facs = [Acc("I", i_idx), Acc("F", f_idx)]
    rnd.shuffle(facs)
    e = Einsum(Acc("O", o_idx), [Term("times", facs)])
    parts = None
    if rnd.random() < 0.35:
        # the output rank split, the input rank following it
        parts = {"W": ["uniform_shape(%d)" % rnd.randint(2, 5)], "Q": ["follow(W)"]}
        groups = [g for g in groups if g not in (["W"], ["Q"], ["S"])]
        groups += rnd.choice([[["W1", "W0"], ["S"]], [["W1", "Q0", "W0"]], [["W1", "W0"], ["Q0"]]])
        tags.append("partitioned")
    lo = interleave(rnd, groups, True)
    spec = Spec(decl, [e], partitioning=({"O": parts} if parts else None), loop_order={"O": lo},
                tags=tags)
    return spec, ext, {"stratum": "S10", "tags": tags, "dims": []}


def gen_affine3(rnd):
    """Stratum S11: THREE index variables in one access, with up to two backward-reaching
    (negative) terms:  O[q] = I[a*q + b*s + c*t] * F[s] * G[t]  (or F[s, t]); optionally the
    output rank is split with the input rank following it (its halo then has a pre- and a
    post-part built from several terms)."""
    a = rnd.choice([1, 1, 2])
    b = rnd.choice([1, -1, -1, 2])
    c = rnd.choice([1, -1, -1, 2])
    if rnd.random() < 0.4:
        b, c = rnd.choice([(-1, -1), (-1, -2), (-2, -1)])
    Q, S, T = rnd.randint(3, 9), rnd.randint(1, 4), rnd.randint(1, 3)
    if b < 0 and c < 0:
        S, T = max(S, 2), max(T, 2)
    hi = a * (Q - 1) + max(0, b * (S - 1)) + max(0, c * (T - 1))
    ext = {"Q": Q, "S": S, "T": T, "W": hi + 1}
    tags = ["S11", "three-index-variables"]
    if b < 0 and c < 0:
        tags.append("two-backward-terms")
    idx = [(a, "q"), (b, "s"), (c, "t")]
    if rnd.random() < 0.4:
        idx = [idx[0]] + rnd.sample(idx[1:], 2)
    if rnd.random() < 0.5:
        decl = {"I": ["W"], "F": ["S"], "G": ["T"], "O": ["Q"]}
        facs = [Acc("I", [idx]), Acc("F", [[(1, "s")]]), Acc("G", [[(1, "t")]])]
    else:
        decl = {"I": ["W"], "F": ["S", "T"], "O": ["Q"]}
        facs = [Acc("I", [idx]), Acc("F", [[(1, "s")], [(1, "t")]])]
    rnd.shuffle(facs)
    e = Einsum(Acc("O", [[(1, "q")]]), [Term("times", facs)])
    parts = None
    if rnd.random() < 0.6:
        parts = {"Q": ["uniform_shape(%d)" % rnd.randint(2, 5)], "W": ["follow(Q)"]}
        groups = [["Q1", "Q0"], ["S"], ["T"]]
        tags += ["partitioned", "halo"]
    else:
        groups = [["Q"], ["S"], ["T"]]
    lo = interleave(rnd, groups, True)
    spec = Spec(decl, [e], partitioning=({"O": parts} if parts else None), loop_order={"O": lo},
                tags=tags)
    return spec, ext, {"stratum": "S11", "tags": tags, "dims": []}


def gen_affine_2out(rnd):
    """Stratum S12: TWO output variables in one access,  O[p, q] = I[a*p + q + b*s] * F[s]
    (a sliding window over a sliding window); optionally Q is split with W following it - the
    follower's halo then has to cover the other output variable too."""
    a = rnd.choice([1, 1, 2])
    b = rnd.choice([1, 1, 2])
    P, Q, S = rnd.randint(2, 4), rnd.randint(3, 8), rnd.randint(1, 3)
    ext = {"P": P, "Q": Q, "S": S, "W": a * (P - 1) + (Q - 1) + b * (S - 1) + 1}
    decl = {"I": ["W"], "F": ["S"], "O": ["P", "Q"]}
    idx = [(a, "p"), (1, "q"), (b, "s")]
    if rnd.random() < 0.4:
        rnd.shuffle(idx)
    facs = [Acc("I", [idx]), Acc("F", [[(1, "s")]])]
    rnd.shuffle(facs)
    out_idx = [[(1, "p")], [(1, "q")]]
    if rnd.random() < 0.4:
        decl["O"] = ["Q", "P"]
        out_idx.reverse()
    e = Einsum(Acc("O", out_idx), [Term("times", facs)])
    tags = ["S12", "two-output-variables-in-one-access"]
    parts, syms = None, {}
    if rnd.random() < 0.65:
        which = rnd.choice(["Q", "Q", "P"]) if a == 1 else "Q"
        # symbolic size: a literal one runs into KF-5 when the level-0 loop walks the output alone
        syms[which + "0"] = rnd.randint(2, 4)
        parts = {which: ["uniform_shape(%s0)" % which], "W": ["follow(%s)" % which]}
        other = "P" if which == "Q" else "Q"
        groups = [[which + "1", which + "0"], [other], ["S"]]
        tags += ["partitioned", "halo"]
    else:
        groups = [["P"], ["Q"], ["S"]]
    lo = interleave(rnd, groups, True)
    spec = Spec(decl, [e], partitioning=({"O": parts} if parts else None), loop_order={"O": lo},
                syms=syms, tags=tags)
    return spec, ext, {"stratum": "S12", "tags": tags, "dims": []}
