"""C04 - affine index expressions are evaluated exactly, with or without
partitioning.  Oracles: dense evaluation; the multiset of contributing index
tuples recorded at the update hook == the set the Einsum defines (none
missing, none twice); no output coordinate outside the declared extent."""
import random

from .. import case as C, run, dense, model, kf
from ..gen import affine as A
from . import common

ID = "C04"
NEEDS_MODEL = True
LEVEL = "exploration"
N = {"quick": 1920, "thorough": 40000}
STRATA = ["S1", "S1", "S2", "S2", "S3", "S1", "S2", "S3", "S4", "S5", "S6", "S8", "S6", "S8", "S9",
          "S9", "S9", "S8", "S10", "S10", "S11", "S11", "S12", "S12"]


def _solve_assignment(e, spec, env):
    """Recover the full index assignment of one update from the loop
    variables in scope.  Returns dict var->int or None."""
    known = {}
    vs = e.vars()
    for v in vs:
        for cand in (v, v + "0"):
            if cand in env:
                known[v] = model._norm(env[cand])
                break
    # access equations: declared rank of the accessed tensor = sum coef*var
    eqs = []
    for a in e.inputs() + [e.out]:
        for r, ix in zip(spec.decl[a.name], a.idx):
            for cand in (r.lower(), r.lower() + "0"):
                if cand in env:
                    eqs.append((model._norm(env[cand]), ix))
                    break
    changed = True
    while changed and len(known) < len(vs):
        changed = False
        for val, ix in eqs:
            unk = [(c, v) for c, v in ix if v not in known]
            if len(unk) == 1:
                c, v = unk[0]
                rest = sum(cc * known[vv] for cc, vv in ix if vv in known)
                x = (val - rest) / c
                known[v] = model._norm(x)
                changed = True
    if len(known) < len(vs):
        return None
    return known


def contribution_check(ex, spec, cs):
    """Compare the multiset of update events with the contributing index
    tuples of the (single-term product) Einsum."""
    e = spec.exprs[0]
    exp, contrib, vs = dense.eval_einsum(e, cs.inputs, cs.scalars, cs.extents, want_contrib=True)
    want = {}
    for oc, asgs in contrib.items():
        for a in asgs:
            want[a] = want.get(a, 0) + 1
    got = {}
    unresolved = 0
    for uid, op, env in ex.update_log:
        k = _solve_assignment(e, spec, env)
        if k is None:
            unresolved += 1
            continue
        t = tuple(k[v] for v in vs)
        got[t] = got.get(t, 0) + 1
    if unresolved:
        return None, {"unresolved": unresolved}
    problems = []
    twice = sorted(t for t, n in got.items() if n > 1 and t in want)[:5]
    missing = sorted(t for t in want if t not in got)[:5]
    # updates at index tuples the Einsum does not define at all (out of the
    # iteration space, or fractional)
    spurious = sorted((t for t in got if t not in want), key=repr)[:5]
    if twice or missing or spurious:
        problems.append({"kind": "contribution-multiset", "vars": vs, "twice": twice,
                         "missing": missing, "spurious": spurious,
                         "n_twice": sum(1 for t, n in got.items() if n > 1 and t in want),
                         "n_missing": sum(1 for t in want if t not in got),
                         "n_spurious": sum(1 for t in got if t not in want)})
    return problems, {"contributions": len(want)}


def classify(spec, problems, extents=None):
    tags = spec.tags
    nk = kf.classify_name_error(spec, problems)
    if nk:
        return nk
    vm = [p for p in problems if p["kind"] == "value-mismatch"]
    cm = [p for p in problems if p["kind"] == "contribution-multiset"]
    oc = [p for p in problems if p["kind"] == "output-coordinate-space"]
    others = [p for p in problems if p["kind"] not in
              ("value-mismatch", "contribution-multiset", "output-coordinate-space")]
    if others:
        return None
    # KF-2: reciprocal of coefficient 3/5/6 computed in floating point drops
    # contributions (only *missing* contributions are explained)
    if "S5" in tags and "loop-input-rank" in tags:
        if all(not p.get("n_over") and not p.get("n_extra") for p in vm) and \
                all(not p.get("n_twice") and not p.get("n_spurious") for p in cm) and not oc:
            return "KF-2"
    # KF-3: interval end not clipped to the output extent: only EXTRA elements
    # at coordinates >= extent of a shape-partitioned index-math output rank,
    # every in-range element right, no contribution missing or doubled
    if "partitioned" in tags and "halo" in tags and "S4" not in tags:
        if all(not p.get("n_missing") and not p.get("n_under") and not p.get("n_over")
               for p in vm) and \
                all(not p.get("n_twice") and not p.get("n_missing") for p in cm) and (vm or oc):
            if all(not p.get("n_extra_inrange") for p in vm):
                return "KF-3"
    # KF-4: multi-level split with halo: contributions counted twice (never
    # missing)
    if "S4" in tags:
        if all(not p.get("n_missing") and not p.get("n_under") for p in vm) and \
                all(not p.get("n_missing") for p in cm):
            return "KF-4"
    return None


def run_one(st, spec, ext, rnd):
    cs = C.make_case(spec, rnd, extents=ext, density=rnd.choice([0.5, 0.7, 0.9, 1.0]))
    out = C.evaluate(cs, log_updates=True)
    if out.status == "ok":
        try:
            probs, meta = contribution_check(out.ex, spec, cs)
        except model.ModelUnsupported:
            probs, meta = None, {}
        if probs is None:
            st.bump("contrib", "unresolved")
        else:
            st.bump("contrib", "checked")
            st.bump("contrib", "tuples", meta.get("contributions", 0))
            out.problems.extend(probs)
    st.account(ID, cs, out, lambda s, p: classify(s, p, cs.extents))


def shard(tier, seed, shard, nshards):
    st = common.Stats()
    n = N[tier] // nshards
    for i in range(n):
        rnd = random.Random("%s-%d-%d-%d" % (ID, seed, shard, i))
        spec, ext, info = A.gen_affine(rnd, STRATA[i % len(STRATA)])
        run_one(st, spec, ext, rnd)
    return st.result()


def replay(v):
    cs = C.Case.from_json(v["case"])
    st = common.Stats()
    out = C.evaluate(cs, log_updates=True)
    if out.status == "ok":
        probs, _ = contribution_check(out.ex, cs.spec, cs)
        out.problems.extend(probs or [])
    st.account(ID, cs, out, lambda s, p: classify(s, p, cs.extents))
    return st.violations


def finalize(results, counters, tier, seed):
    inc = []
    if counters.get("status", {}).get("ok", 0) < N[tier] // 4:
        inc.append("too few executed cases: %r" % counters.get("status"))
    miss = [s for s in ("S1", "S2", "S3", "S6", "S8", "S9", "S10", "S11", "S12", "two-followers", "loop-input-rank", "partitioned", "halo",
                        "channel", "filter-partitioned", "extra-output-operand",
                        "both-dims-partitioned")
            if counters.get("strata_ok", {}).get(s, 0) == 0]
    if miss:
        inc.append("strata never executed: %r" % miss)
    if counters.get("contrib", {}).get("checked", 0) == 0:
        inc.append("contribution monitor never ran")
    cov = {"rule": "1-D/2-D accesses a*q+b*s (a in 1,2,4; b in 1,2,-1), subsampling a*q, optional "
                   "channel rank; loop order per index equation (output var, filter var) or (output "
                   "var, input rank); optional extra operand on the output's index variables; rank names "
                   "varied; strata S6 filter rank partitioned, S8 extra operand, S9 two affine operands, S10 affine output (transposed convolution), S1 unpartitioned, S2 one-level split + follow, S3 "
                   "multi-level subsampling, S4 multi-level with halo (known finding KF-4), S5 "
                   "coefficient 3/5/6 over the input rank (KF-2); consistent extents; non-trivial = "
                   "accepted, all loops iterated, >=1 update"}
    return cov, common.MODEL_ASSUMPTIONS + [
        "consistent extents: the accessed rank's extent is max reachable coordinate + 1",
        "project() sorts the projected coordinates; prune(c % 1 == 0) keeps integral ones"], inc
