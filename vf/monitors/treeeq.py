"""C09 oracle: the printed text denotes the HiFiber tree the translator built.

Both the HiFiber statement tree and ast.parse(text) are converted to the same
canonical term language and compared.  EParens is erased (grouping is carried
by the tree shape); chains of ONE associative operator (+ * & |) are
flattened on both sides; a negative EInt equals unary minus on a literal."""
import ast

ASSOC = {"+", "*", "&", "|"}
OPS = {ast.Add: "+", ast.Sub: "-", ast.Mult: "*", ast.Div: "/", ast.FloorDiv: "//",
       ast.Mod: "%", ast.BitAnd: "&", ast.BitOr: "|", ast.LShift: "<<", ast.RShift: ">>",
       ast.Eq: "==", ast.NotEq: "!=", ast.Lt: "<", ast.LtE: "<=", ast.Gt: ">", ast.GtE: ">=",
       ast.In: "in", ast.NotIn: "not in", ast.Pow: "**"}


class TreeUnsupported(Exception):
    pass


def flat(op, a, b):
    if op in ASSOC:
        xs = []
        for t in (a, b):
            if isinstance(t, tuple) and t and t[0] == "bin" and t[1] == op:
                xs.extend(t[2])
            else:
                xs.append(t)
        return ("bin", op, tuple(xs))
    return ("bin", op, (a, b))


def _H():
    import teaal.hifiber as H
    return H


# ---- from the HiFiber tree
def he(e):
    H = _H()
    if isinstance(e, H.EParens):
        return he(e.expr)
    if isinstance(e, H.EVar):
        return ("var", e.name)
    if isinstance(e, H.EInt):
        return ("int", e.int)
    if isinstance(e, H.EFloat):
        if e.float == float("inf"):
            return ("call", ("var", "float"), (("str", "inf"),), ())
        if e.float == -float("inf"):
            return ("neg", ("call", ("var", "float"), (("str", "inf"),), ()))
        return ("float", e.float)
    if isinstance(e, H.EBool):
        return ("const", e.bool)
    if isinstance(e, H.EString):
        return ("str", e.string)
    if isinstance(e, H.EBinOp):
        return flat(e.op.gen(), he(e.expr1), he(e.expr2))
    if isinstance(e, H.EAccess):
        return ("sub", he(e.obj), he(e.ind))
    if isinstance(e, H.EField):
        return ("attr", ("var", e.obj), e.field)
    if isinstance(e, H.EList):
        return ("list", tuple(he(x) for x in e.list))
    if isinstance(e, H.ETuple):
        return ("tuple", tuple(he(x) for x in e.elems))
    if isinstance(e, H.EDict):
        return ("dict", tuple((he(k), he(v)) for k, v in e.dict.items()))
    if isinstance(e, H.ELambda):
        return ("lambda", tuple(e.args), he(e.body))
    if isinstance(e, H.EComp):
        return ("comp", he(e.elem), e.var, he(e.iter))
    if isinstance(e, (H.EFunc, H.EMethod)):
        pos = tuple(he(a.expr) for a in e.args if isinstance(a, H.AJust))
        kw = tuple((a.name, he(a.expr)) for a in e.args if isinstance(a, H.AParam))
        f = ("var", e.name) if isinstance(e, H.EFunc) else ("attr", he(e.obj), e.name)
        return ("call", f, pos, kw)
    raise TreeUnsupported("expr " + type(e).__name__)


def hp(p):
    H = _H()
    if isinstance(p, H.PVar):
        return ("var", p.var)
    return ("tuple", tuple(hp(x) for x in p.payloads))


def ha(a):
    H = _H()
    if isinstance(a, H.AVar):
        return ("var", a.name)
    if isinstance(a, H.AAccess):
        return ("sub", he(a.obj), he(a.ind))
    if isinstance(a, H.AField):
        return ("attr", ("var", a.obj), a.field)
    raise TreeUnsupported("assignable " + type(a).__name__)


def hs(s):
    H = _H()
    if isinstance(s, H.SBlock):
        out = []
        for x in s.stmts:
            r = hs(x)
            if isinstance(x, H.SBlock):
                out.extend(r)
            else:
                out.append(r)
        return out
    if isinstance(s, H.SAssign):
        return ("assign", ha(s.assn), he(s.expr))
    if isinstance(s, H.SIAssign):
        return ("aug", ha(s.assn), s.op.gen(), he(s.expr))
    if isinstance(s, H.SExpr):
        return ("expr", he(s.expr))
    if isinstance(s, H.SFor):
        return ("for", hp(s.payload), he(s.expr), body(s.stmt))
    if isinstance(s, H.SIf):
        return ("if", he(s.if_[0]), body(s.if_[1]),
                tuple((he(c), body(b)) for c, b in s.elifs),
                body(s.else_) if s.else_ is not None else None)
    if isinstance(s, H.SReturn):
        return ("return", he(s.expr))
    if isinstance(s, H.SFunc):
        return ("def", s.name, tuple(a.name for a in s.args), body(s.body))
    raise TreeUnsupported("stmt " + type(s).__name__)


def body(s):
    H = _H()
    r = hs(s)
    return tuple(r) if isinstance(s, H.SBlock) else (r,)


# ---- from the Python AST
def pe(n):
    if isinstance(n, ast.Name):
        return ("var", n.id)
    if isinstance(n, ast.Constant):
        v = n.value
        if isinstance(v, bool):
            return ("const", v)
        if v is None:
            return ("var", "None")
        if isinstance(v, int):
            return ("int", v)
        if isinstance(v, float):
            return ("float", v)
        if isinstance(v, str):
            return ("str", v)
    if isinstance(n, ast.UnaryOp) and isinstance(n.op, ast.USub):
        if isinstance(n.operand, ast.Constant) and isinstance(n.operand.value, (int, float)) \
                and not isinstance(n.operand.value, bool):
            v = n.operand.value
            return ("int", -v) if isinstance(v, int) else ("float", -v)
        return ("neg", pe(n.operand))
    if isinstance(n, ast.BinOp):
        return flat(OPS[type(n.op)], pe(n.left), pe(n.right))
    if isinstance(n, ast.Compare):
        if len(n.ops) != 1:
            return ("chain-compare", tuple(OPS[type(o)] for o in n.ops),
                    (pe(n.left),) + tuple(pe(c) for c in n.comparators))
        return flat(OPS[type(n.ops[0])], pe(n.left), pe(n.comparators[0]))
    if isinstance(n, ast.Subscript):
        return ("sub", pe(n.value), pe(n.slice))
    if isinstance(n, ast.Attribute):
        return ("attr", pe(n.value), n.attr)
    if isinstance(n, ast.List):
        return ("list", tuple(pe(x) for x in n.elts))
    if isinstance(n, ast.Tuple):
        return ("tuple", tuple(pe(x) for x in n.elts))
    if isinstance(n, ast.Dict):
        return ("dict", tuple((pe(k), pe(v)) for k, v in zip(n.keys, n.values)))
    if isinstance(n, ast.Lambda):
        return ("lambda", tuple(a.arg for a in n.args.args), pe(n.body))
    if isinstance(n, ast.Call):
        return ("call", pe(n.func), tuple(pe(a) for a in n.args),
                tuple((k.arg, pe(k.value)) for k in n.keywords))
    if isinstance(n, ast.ListComp) and len(n.generators) == 1 and \
            isinstance(n.generators[0].target, ast.Name) and not n.generators[0].ifs:
        g = n.generators[0]
        return ("comp", pe(n.elt), g.target.id, pe(g.iter))
    if isinstance(n, ast.BoolOp):
        return ("boolop", type(n.op).__name__, tuple(pe(v) for v in n.values))
    if isinstance(n, ast.IfExp):
        return ("ifexp", pe(n.test), pe(n.body), pe(n.orelse))
    return ("py", ast.dump(n))


def ps(s):
    if isinstance(s, ast.Assign):
        if len(s.targets) != 1:
            return ("multi-assign", tuple(pe(t) for t in s.targets), pe(s.value))
        return ("assign", pe(s.targets[0]), pe(s.value))
    if isinstance(s, ast.AugAssign):
        return ("aug", pe(s.target), OPS[type(s.op)], pe(s.value))
    if isinstance(s, ast.Expr):
        return ("expr", pe(s.value))
    if isinstance(s, ast.For):
        return ("for", pe(s.target), pe(s.iter), tuple(ps(x) for x in s.body))
    if isinstance(s, ast.If):
        # elif chains arrive nested in orelse; HiFiber keeps them in a list
        elifs = []
        orelse = s.orelse
        while len(orelse) == 1 and isinstance(orelse[0], ast.If) and \
                getattr(orelse[0], "col_offset", 0) == s.col_offset:
            e = orelse[0]
            elifs.append((pe(e.test), tuple(ps(x) for x in e.body)))
            orelse = e.orelse
        return ("if", pe(s.test), tuple(ps(x) for x in s.body), tuple(elifs),
                tuple(ps(x) for x in orelse) if orelse else None)
    if isinstance(s, ast.Return):
        return ("return", pe(s.value))
    if isinstance(s, ast.FunctionDef):
        return ("def", s.name, tuple(a.arg for a in s.args.args), tuple(ps(x) for x in s.body))
    return ("pystmt", ast.dump(s))


def first_diff(a, b, path=""):
    if a == b:
        return None
    if isinstance(a, tuple) and isinstance(b, tuple) and len(a) == len(b):
        for i, (x, y) in enumerate(zip(a, b)):
            d = first_diff(x, y, path + "/%d" % i)
            if d:
                return d
    return {"path": path, "tree": _clip(a), "text": _clip(b)}


def _clip(x, n=400):
    s = repr(x)
    return s if len(s) <= n else s[:n] + "..."


def size(t):
    if isinstance(t, (tuple, list)):
        return 1 + sum(size(x) for x in t)
    return 1


def compare_stmt(stmt, text):
    """stmt: HiFiber Statement (SBlock); text: its printed form."""
    a = tuple(hs(stmt)) if hasattr(stmt, "stmts") else (hs(stmt),)
    try:
        b = tuple(ps(x) for x in ast.parse(text).body)
    except SyntaxError as e:
        return {"path": "", "tree": "(n/a)", "text": "SyntaxError: %s" % e}, size(a)
    return first_diff(a, b), size(a)


def compare_expr(expr):
    """expr: HiFiber Expression; compares with ast of its gen()."""
    a = he(expr)
    text = expr.gen()
    try:
        b = pe(ast.parse(text, mode="eval").body)
    except SyntaxError as e:
        return {"path": "", "tree": _clip(a), "text": "SyntaxError: %s in %r" % (e, text)}, size(a)
    d = first_diff(a, b)
    if d:
        d["printed"] = text
    return d, size(a)
