"""vf - runtime-monitoring framework for the TeAAL compiler (see /verif/DESIGN.md)."""
