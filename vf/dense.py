"""Independent dense evaluation of an Einsum from the generator's structure."""
import itertools


def _coord(idx, env):
    return tuple(sum(c * env[v] for c, v in i) for i in idx)


def eval_einsum(e, tensors, scalars, extents, want_contrib=False):
    """tensors: {name: {coords in the access's (declared) order: int}}.
    Returns {out coords: value != 0}; with want_contrib also
    {out coords: sorted list of index-assignments that contributed}."""
    vs = e.vars()
    res = {}
    contrib = {}
    ranges = [range(extents[v.upper()]) for v in vs]
    for asg in itertools.product(*ranges):
        env = dict(zip(vs, asg))
        total = 0
        for t in e.terms:
            vals = []
            for f in t.factors:
                if isinstance(f, str):
                    vals.append(scalars[f])
                else:
                    vals.append(tensors[f.name].get(_coord(f.idx, env), 0))
            if t.kind == "times":
                p = 1
                for v in vals:
                    p *= v
                total += p
            else:
                if all(v != 0 for v in vals):
                    total += vals[t.sel]
        if total != 0:
            oc = _coord(e.out.idx, env)
            res[oc] = res.get(oc, 0) + total
            if want_contrib:
                contrib.setdefault(oc, []).append(asg)
    res = {k: v for k, v in res.items() if v != 0}
    if want_contrib:
        return res, {k: sorted(v) for k, v in contrib.items()}, vs
    return res


def eval_cascade(spec, inputs, scalars, extents):
    """Evaluate every Einsum of spec in order.  inputs: {name: {coords: v}}
    in declared rank order.  Returns {name: dict} for all tensors produced."""
    env = {k: dict(v) for k, v in inputs.items()}
    produced = {}
    for e in spec.exprs:
        out = eval_einsum(e, env, scalars, extents)
        env[e.out.name] = out
        produced[e.out.name] = out
    return produced


def in_extent(d, ranks, extents):
    """Coordinates of d (declared order `ranks`) that fall outside extents."""
    bad = []
    for cs in d:
        for c, r in zip(cs, ranks):
            if not (0 <= c < extents[r]):
                bad.append(cs)
                break
    return bad
