"""Case runner: compile a Spec with the real compiler from /repo, execute the
emitted program on the reference model, return everything the oracles need."""
import itertools
import os
import random
import sys
import traceback

REPO = os.environ.get("VF_REPO", "/repo")
if REPO not in sys.path:
    sys.path.insert(0, REPO)

from . import model, standins, dense  # noqa: E402
from .instrument import instrument  # noqa: E402


def teaal_modules():
    import teaal
    path = os.path.realpath(os.path.dirname(teaal.__file__))
    want = os.path.realpath(os.path.join(REPO, "teaal"))
    if path != want:
        raise RuntimeError("teaal imported from %s, expected %s" % (path, want))
    from teaal.parse import Einsum, Mapping, Architecture, Bindings, Format
    from teaal.trans.hifiber import HiFiber
    return Einsum, Mapping, Architecture, Bindings, Format, HiFiber


class Compiled:
    def __init__(self, obj=None, text=None, error=None, etype=None, tb=None):
        self.obj = obj
        self.text = text
        self.error = error
        self.etype = etype
        self.tb = tb

    @property
    def ok(self):
        return self.error is None

    @property
    def rejected(self):
        return self.etype == "ValueError"


def compile_yaml(y, mode="plain"):
    """mode: plain (Einsum+Mapping) or metrics (all five sections)."""
    Einsum, Mapping, Architecture, Bindings, Format, HiFiber = teaal_modules()
    try:
        # from_str(s) is cls(YamlParser.parse_str(s)); parse once with the
        # repository's own YAML reader and give every class its own copy
        import copy
        from teaal.parse.yaml import YamlParser
        d = YamlParser.parse_str(y)
        from . import hooks
        hooks.install_swizzle_probe()
        try:
            hooks._CURRENT[0] = hooks.norm_exprs(d["einsum"]["expressions"])
        except Exception:
            hooks._CURRENT[0] = None
        e = Einsum(copy.deepcopy(d))
        m = Mapping(copy.deepcopy(d))
        if mode == "metrics":
            h = HiFiber(e, m, Architecture(copy.deepcopy(d)), Bindings(copy.deepcopy(d)),
                        Format(copy.deepcopy(d)))
        else:
            h = HiFiber(e, m)
        return Compiled(h, str(h))
    except Exception as ex:  # noqa
        return Compiled(error=str(ex), etype=type(ex).__name__,
                        tb=traceback.format_exc(limit=6))


class Recorder:
    """Event log with per-kind counters; keeps at most `cap` detailed events."""

    def __init__(self, cap=120000):
        self.counts = {}
        self.events = []
        self.cap = cap

    def ev(self, _k, **data):
        kind = _k
        self.counts[kind] = self.counts.get(kind, 0) + 1
        if len(self.events) < self.cap:
            self.events.append((kind, data))

    def of(self, kind):
        return [d for k, d in self.events if k == kind]


def gen_inputs(spec, extents, rnd, density=0.6, vmax=9):
    """{name: {coords (declared order): int in 1..vmax}}; rank-0 tensors are
    non-zero; no stored zeros."""
    out = {}
    for name in spec.user_inputs():
        ranks = spec.decl[name]
        d = {}
        if not ranks:
            d[()] = rnd.randint(1, vmax)
        else:
            for cs in itertools.product(*[range(extents[r]) for r in ranks]):
                if rnd.random() < density:
                    d[cs] = rnd.randint(1, vmax)
        out[name] = d
    return out


def to_order(d, decl_ranks, order):
    perm = [decl_ranks.index(r) for r in order]
    return {tuple(c[i] for i in perm): v for c, v in d.items()}


def from_order(d, decl_ranks, order):
    perm = [order.index(r) for r in decl_ranks]
    return {tuple(c[i] for i in perm): v for c, v in d.items()}


class Execution:
    def __init__(self):
        self.ns = None
        self.rec = None
        self.error = None
        self.etype = None
        self.tb = None
        self.loops = []
        self.updates = []
        self.loop_iters = {}
        self.loop_enters = {}
        self.update_count = 0
        self.update_log = []
        self.input_objs = {}
        self.input_snap = {}
        self.canvas = None
        self.metrics_env = None

    @property
    def ok(self):
        return self.error is None

    def all_loops_entered(self):
        return all(self.loop_iters.get(l.id, 0) > 0 for l in self.loops)


def execute(text, spec, inputs, extents, scalars=None, mode="plain",
            log_updates=False, upd_cap=200000, extra_ns=None, content_addressed=False):
    """Run emitted text on the model.  inputs in declared order."""
    ex = Execution()
    rec = Recorder()
    ex.rec = rec
    try:
        code, loops, updates = instrument(text)
    except SyntaxError as e:
        ex.error = "SyntaxError: %s" % e
        ex.etype = "SyntaxError"
        return ex
    ex.loops, ex.updates = loops, updates

    def vf_loop(kind, lid):
        if kind == "iter":
            ex.loop_iters[lid] = ex.loop_iters.get(lid, 0) + 1
        elif kind == "enter":
            ex.loop_enters[lid] = ex.loop_enters.get(lid, 0) + 1
        rec.counts["loop_" + kind] = rec.counts.get("loop_" + kind, 0) + 1
        if kind != "iter" and len(rec.events) < rec.cap:
            rec.events.append(("loop_" + kind, {"id": lid}))

    def vf_upd(uid, op, env):
        ex.update_count += 1
        rec.counts["update"] = rec.counts.get("update", 0) + 1
        if len(rec.events) < rec.cap:
            rec.events.append(("update", {"id": uid}))
        if log_updates and len(ex.update_log) < upd_cap:
            ex.update_log.append((uid, op, env))

    ns = {"Tensor": model.Tensor, "Fiber": model.Fiber, "Payload": model.Payload,
          "__vf_loop": vf_loop, "__vf_upd": vf_upd}
    ns.update(extents)
    ns.update(scalars or {})
    ns.update(spec.syms)
    for name, d in inputs.items():
        order = spec.order_of(name)
        t = model.Tensor.fromDict(order, to_order(d, spec.decl[name], order), name)
        model.tag_owner(t, name)
        ns[name + "_" + "".join(order)] = t
        ex.input_objs[name] = t
        ex.input_snap[name] = model.snapshot(t)
    ex.canvas = standins.CanvasEnv(rec)
    ns.update(ex.canvas.names())
    if mode == "metrics":
        ex.metrics_env = standins.MetricsEnv(rec, content_addressed=content_addressed)
        ns.update(ex.metrics_env.names())
    if extra_ns:
        ns.update(extra_ns)
    ex.ns = ns
    old = model.REC
    model.REC = rec
    try:
        exec(code, ns)
    except model.ModelUnsupported as e:
        ex.error = str(e)
        ex.etype = "ModelUnsupported"
        ex.tb = traceback.format_exc(limit=4)
    except RecursionError as e:
        ex.error = str(e)
        ex.etype = "RecursionError"
    except Exception as e:  # noqa
        ex.error = "%s: %s" % (type(e).__name__, e)
        ex.etype = type(e).__name__
        ex.tb = traceback.format_exc(limit=5)
    finally:
        model.REC = old
    return ex


def output_of(ex, spec, name):
    """The tensor bound to <name>_<order> after the run, as a dict in declared
    order, plus the object.  Raises KeyError if the name is not bound."""
    order = spec.order_of(name)
    t = ex.ns[name + "_" + "".join(order)]
    return t, order


def pick_extents(spec, rnd, lo=2, hi=6):
    return {r: rnd.randint(lo, hi) for r in spec.all_ranks()}


def result_check(ex, spec, inputs, scalars, extents, expected=None):
    """Standard result oracle for non-affine specs.  Returns list of problem
    dicts (empty = agrees with the dense evaluation)."""
    problems = []
    if expected is None:
        expected = dense.eval_cascade(spec, inputs, scalars, extents)
    for e in spec.exprs:
        name = e.out.name
        order = spec.order_of(name)
        var = name + "_" + "".join(order)
        if var not in ex.ns:
            problems.append({"kind": "output-unbound", "tensor": name, "var": var})
            continue
        t = ex.ns[var]
        if not isinstance(t, model.Tensor):
            problems.append({"kind": "output-not-tensor", "tensor": name, "var": var})
            continue
        if t.getRankIds() != list(order):
            problems.append({"kind": "output-rank-ids", "tensor": name,
                             "got": t.getRankIds(), "want": list(order)})
            continue
        if not t.depthOK():
            problems.append({"kind": "output-structure", "tensor": name})
            continue
        got = from_order(t.toDict(), spec.decl[name], order)
        exp = expected[name]
        if got != exp:
            missing = sorted(k for k in exp if k not in got)[:5]
            extra = sorted(k for k in got if k not in exp)[:5]
            wrong = sorted((k, got[k], exp[k]) for k in exp if k in got and got[k] != exp[k])[:5]
            problems.append({"kind": "value-mismatch", "tensor": name,
                             "missing": missing, "extra": extra, "wrong": wrong,
                             "n_missing": sum(1 for k in exp if k not in got),
                             "n_extra": sum(1 for k in got if k not in exp),
                             "n_extra_inrange": sum(
                                 1 for k in got if k not in exp and all(
                                     isinstance(c, int) and 0 <= c < extents[r]
                                     for c, r in zip(k, spec.decl[name]))),
                             "n_over": sum(1 for k in exp if k in got and got[k] > exp[k]),
                             "n_under": sum(1 for k in exp if k in got and got[k] < exp[k]),
                             "n_got": len(got), "n_exp": len(exp)})
    return problems
