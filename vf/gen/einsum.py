"""Seeded generators for plain (non-affine) Einsums and their basic mapping."""
import itertools

from ..spec import Acc, Term, Einsum, Spec

RANKS = ["M", "N", "K", "J", "P"]
TNAMES = list("ABCDEFGHIQRSUVWXY") + ["A%d" % i for i in range(8)]


ALT_RANKS = ["I", "H", "W", "S", "Q", "R", "X"]


def pick_pool(rnd):
    """Mostly the usual rank names; sometimes names that collide with tensor
    names, end in I, or have two letters (never a two-letter name together
    with its letters: level/flatten names would be ambiguous)."""
    x = rnd.random()
    if x < 0.67:
        return RANKS
    if x < 0.70:
        # a rank whose lower-case name is a Python keyword (KF-14)
        pool = [rnd.choice(["IN", "IS", "OR", "AS", "IF"])] + rnd.sample(RANKS, 3)
        rnd.shuffle(pool)
        return pool
    if x < 0.78:
        # a rank whose name is the concatenation of two others: [A, B, AB] and [AB, A, B]
        # spell the same variable-name suffix (legal as long as nothing is flattened)
        a, b = rnd.sample(["M", "N", "K", "J", "H", "W"], 2)
        pool = [a, b, a + b] + rnd.sample([r for r in RANKS if r not in (a, b)], 1)
        rnd.shuffle(pool)
        return pool
    if x < 0.84:
        # a rank whose name is a prefix of another's
        a = rnd.choice(["M", "N", "K"])
        pool = [a, a + rnd.choice("HWX")] + rnd.sample([r for r in RANKS if r != a], 2)
        rnd.shuffle(pool)
        return pool
    pool = rnd.sample(ALT_RANKS, 4) + rnd.sample(RANKS, 1)
    if rnd.random() < 0.4:
        two = rnd.choice(["HI", "NI", "WI"])
        pool = [r for r in pool if r not in two] + [two]
    return pool


def _acc(name, ranks):
    return Acc(name, [[(1, r.lower())] for r in ranks])


def gen_einsum(rnd, names=None, out_name="Z", ranks=None, max_ranks=4, max_terms=3,
               max_factors=3, allow_take=True, allow_scalar=True, allow_rank0=True,
               force=None, products_only=False):
    """Return (decl fragment, Einsum, info).  Every term ranges over all
    non-output-only ranks (the compiler requires equal rank sets per term).
    force: optional stratum name."""
    if names is None and rnd.random() < 0.1:
        # tensor names in a prefix relation (A / AT / A0, T / T0 ...): name comparisons by
        # prefix must not confuse a tensor with its namesake
        base = rnd.sample(["A", "B", "T", "X"], 2)
        fam = [base[0], base[0] + "T", base[0] + "0", base[1], base[1] + "A", base[0] + "TB",
               base[1] + "1"]
        rnd.shuffle(fam)
        names = fam + [n for n in TNAMES if n not in fam and n not in ("Z",)]
    names = iter(names or TNAMES)
    pool = ranks or pick_pool(rnd)
    nr = rnd.randint(1, min(max_ranks, len(pool)))
    if force in ("union3", "take3"):
        nr = max(nr, 2)
    rs = rnd.sample(pool, nr)
    info = {"strata": []}
    # output ranks
    if force == "reduce0":
        out_ranks = []
    else:
        out_ranks = [r for r in rs if rnd.random() < 0.6]
    rnd.shuffle(out_ranks)
    # output-only (broadcast) ranks: not in any term
    bcast = []
    if force == "broadcast" or (not products_only and rnd.random() < 0.08):
        cand = [r for r in out_ranks]
        if not cand:
            cand = [rs[0]]
            out_ranks = [rs[0]] + out_ranks
        if len(rs) > 1:
            bcast = [rnd.choice(cand)]
    term_ranks = [r for r in rs if r not in bcast]
    if not term_ranks:
        bcast = []
        term_ranks = list(rs)
    if bcast:
        info["strata"].append("broadcast")

    if products_only:
        nterms = 1
    elif force == "union3":
        nterms = 3
    elif force == "sumprod":
        nterms = 2
    else:
        nterms = rnd.choice([1, 1, 1, 2, 2, 3][:max(1, 2 * max_terms)])
        nterms = min(nterms, max_terms)
        if max_terms >= 3 and rnd.random() < 0.06:
            nterms = 4
    decl = {}
    terms = []
    for t in range(nterms):
        nf = rnd.randint(1, max_factors)
        if max_factors >= 3 and rnd.random() < 0.06:
            nf = 4
        if force == "take3" and t == 0:
            nf = 3
        if force == "sumprod":
            nf = max(nf, 2)
        facs = []
        cover = set()
        for f in range(nf):
            lo = 0 if (allow_rank0 and rnd.random() < 0.15) else 1
            if force == "rank0" and t == 0 and f == 0:
                k = 0
            else:
                k = rnd.randint(lo, len(term_ranks))
            fr = rnd.sample(term_ranks, k)
            facs.append(fr)
            cover |= set(fr)
        missing = [r for r in term_ranks if r not in cover]
        if missing:
            # put missing ranks on a factor that is not the forced rank-0 one
            cands = [i for i in range(nf) if not (force == "rank0" and t == 0 and i == 0)]
            if not cands:
                facs.append([])
                cands = [len(facs) - 1]
            facs[rnd.choice(cands)] += missing
        accs = []
        for fr in facs:
            fr = list(dict.fromkeys(fr))
            rnd.shuffle(fr)
            n = next(names)
            decl[n] = fr
            if not fr:
                info["strata"].append("rank0")
            accs.append(_acc(n, fr))
        use_take = False
        if allow_take and not products_only and len(accs) >= 2:
            if force == "take3" and t == 0:
                use_take = True
            elif nterms == 1 and rnd.random() < 0.3:
                use_take = True
            elif nterms > 1 and rnd.random() < 0.04:
                use_take = True
        if use_take:
            terms.append(Term("take", accs, rnd.randrange(len(accs))))
            info["strata"].append("take%d" % len(accs))
            if nterms > 1:
                info["strata"].append("take-in-sum")
        else:
            fl = list(accs)
            if allow_scalar and rnd.random() < 0.2:
                # scalar names may repeat across terms (and, rarely, inside a term)
                sc = "sc%d" % rnd.choice([0, 0, 1, t])
                fl.insert(rnd.randrange(len(fl) + 1), sc)
                if rnd.random() < 0.1:
                    fl.insert(rnd.randrange(len(fl) + 1), sc)
                info["strata"].append("scalar")
            terms.append(Term("times", fl))
    if nterms >= 3:
        info["strata"].append("union3")
    if nterms >= 4 or any(len(t.tensors()) >= 4 for t in terms):
        info["strata"].append("four-operands")
    if nterms >= 2 and any(len(t.tensors()) >= 2 for t in terms):
        info["strata"].append("sumprod")
    if not out_ranks:
        info["strata"].append("reduce0")
    decl[out_name] = list(out_ranks)
    e = Einsum(_acc(out_name, out_ranks), terms)
    info["ranks"] = list(out_ranks) + [r for r in term_ranks if r not in out_ranks]
    info["contracted"] = [r for r in term_ranks if r not in out_ranks]
    return decl, e, info


def random_rank_orders(rnd, decl, p=1.0):
    ro = {}
    for n, rs in decl.items():
        if rnd.random() < p:
            q = list(rs)
            rnd.shuffle(q)
            ro[n] = q
    return ro


def gen_plain(rnd, force=None, **kw):
    """A single-Einsum Spec with random rank orders and loop order."""
    decl, e, info = gen_einsum(rnd, force=force, **kw)
    ro = random_rank_orders(rnd, decl)
    lo = list(info["ranks"])
    rnd.shuffle(lo)
    if force == "contracted-outer" and info["contracted"]:
        c = rnd.choice(info["contracted"])
        lo.remove(c)
        lo.insert(0, c)
        info["strata"].append("contracted-outer")
    elif lo and lo[0] in info["contracted"]:
        info["strata"].append("contracted-outer")
    s = Spec(decl, [e], rank_order=ro, loop_order={e.out.name: lo}, tags=info["strata"])
    return s, info


def all_loop_orders(spec, info):
    out = []
    for p in itertools.permutations(info["ranks"]):
        s = spec.clone()
        s.loop_order = {spec.exprs[0].out.name: list(p)}
        out.append(s)
    return out
