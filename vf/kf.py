"""Mechanism predicates for the known findings listed in
/verif/known_findings.json.  A predicate decides whether ONE observed
violation is explained by a recorded defect; it is deliberately narrow so
that a different violation of the same property is still reported."""
import re


def _einsum_for(spec, rank):
    return spec.exprs


def output_only_ranks(spec, e):
    ins = set()
    for a in e.inputs():
        ins.update(spec.decl[a.name])
    return [r for r in spec.decl[e.out.name] if r not in ins]


def _shape_partitioned(spec, e, rank):
    ps = (spec.partitioning or {}).get(e.out.name) or {}
    ds = ps.get(rank)
    return bool(ds) and all(d.startswith(("uniform_shape", "nway_shape")) for d in ds)


def name_error_name(msg):
    m = re.search(r"name '([^']+)' is not defined", msg or "")
    return m.group(1) if m else None


def kf5_unbound_level_size(spec, name):
    """KF-5: iterating an output-only, shape-partitioned rank emits the size of
    the partition level as a variable <RANK><level> that nothing binds."""
    m = re.match(r"^([A-Z]+?)(\d+)$", name or "")
    if not m or name in spec.syms:
        return False
    rank = m.group(1)
    for e in spec.exprs:
        if rank in output_only_ranks(spec, e) and _shape_partitioned(spec, e, rank):
            return True
    return False


def kf7_unbound_offset(spec, name):
    """KF-7: an output-only, shape-partitioned rank whose levels are looped out
    of order reads the enclosing level's coordinate variable before (outside)
    the loop that binds it."""
    m = re.match(r"^([a-z]+?)(\d+)$", name or "")
    if not m:
        return False
    rank, lvl = m.group(1).upper(), int(m.group(2))
    for e in spec.exprs:
        if rank in output_only_ranks(spec, e) and _shape_partitioned(spec, e, rank):
            lo = (spec.loop_order or {}).get(e.out.name)
            if not lo:
                continue
            mine = [r for r in lo if re.match("^" + rank + r"\d+$", r)]
            want = sorted(mine, key=lambda r: -int(r[len(rank):]))
            if mine != want:
                return True
    return False


def kf8_merger_dynamic(spec, name):
    """KF-8: the metrics dump of a Merger bound to a DYNAMICALLY partitioned
    tensor reads <Tensor>_<init-ranks>, a variable that is only bound inside
    the loop nest (unbound when an enclosing loop runs zero times)."""
    if not spec.extra or "Merger" not in spec.extra and "merger" not in spec.extra:
        return False
    try:
        from ruamel.yaml import YAML
        d = YAML(typ="safe", pure=True).load(spec.extra)
    except Exception:
        return False
    for einsum, items in (d.get("bindings") or {}).items():
        parts = (spec.partitioning or {}).get(einsum) or {}
        dyn = [r for r, ds in parts.items() if any(x.startswith("uniform_occupancy") for x in ds)]
        for it in items or []:
            for b in it.get("bindings") or []:
                if isinstance(b, dict) and "init-ranks" in b and "tensor" in b:
                    if name == b["tensor"] + "_" + "".join(b["init-ranks"]):
                        if any(any(lvl.startswith(r) for r in dyn) for lvl in b["init-ranks"]):
                            return True
    return False


def kf12_names(spec):
    """Lower-case names of flattened ranks (and their partition levels) that carry a
    coordinate-style space-time stamp: Canvas.__rel_coord emits that name as a variable,
    which nothing binds (the loop binds the tuple of the member ranks)."""
    out = set()
    flats = set()
    for ps in (spec.partitioning or {}).values():
        for k in (ps or {}):
            if k.startswith("("):
                flats.add("".join(x.strip() for x in k.strip("()").split(",")))
    for st in (spec.spacetime or {}).values():
        for stamp in list(st.get("space", [])) + list(st.get("time", [])):
            if not stamp.endswith(".coord"):
                continue
            x = stamp[:-len(".coord")]
            for f in flats:
                if x == f or (x.startswith(f) and x[len(f):].isdigit()):
                    out.add(x.lower())
                    # the stamp of a level is written relative to the enclosing level
                    if x != f:
                        out.add((f + str(int(x[len(f):]) + 1)).lower())
    return out


def kf12(spec, problems):
    """KF-12 explains: an unbound read / NameError of exactly such a name, or a text that
    does not parse because that name is a Python keyword (ranks I and S flatten to `is`)."""
    import keyword
    names = kf12_names(spec)
    if not names or not problems:
        return None
    for p in problems:
        k = p.get("kind")
        if k == "unbound-read" and p.get("name") in names:
            continue
        if k == "exec-error" and p.get("etype") in ("NameError", "UnboundLocalError") and \
                name_error_name(p.get("error")) in names:
            continue
        kw = any(keyword.iskeyword(n) for n in names)
        if k == "syntax-error" and kw:
            continue
        if k == "tree-text-mismatch" and kw and str(p.get("text", "")).startswith("SyntaxError"):
            continue
        return None
    return "KF-12"


def kf15_names(spec):
    """Upper-case names of flattened ranks (and their partition levels) all of whose members
    are ranks of the Einsum's OUTPUT, in a spec compiled with architecture/bindings/format:
    the output constructor's explicit shape=[...] names the flattened rank as if it were an
    extent variable."""
    out = set()
    if not (spec.extra or "").strip():
        return out
    for e in spec.exprs:
        ps = (spec.partitioning or {}).get(e.out.name) or {}
        for k in ps:
            if k.startswith("("):
                ms = [x.strip() for x in k.strip("()").split(",")]
                if all(m in spec.decl[e.out.name] for m in ms):
                    out.add("".join(ms))
    return out


def name_kf(spec, name):
    """Which known finding (if any) explains an unbound name."""
    if name in kf12_names(spec):
        return "KF-12"
    if name in kf15_names(spec):
        return "KF-15"
    if kf5_unbound_level_size(spec, name):
        return "KF-5"
    if kf7_unbound_offset(spec, name):
        return "KF-7"
    if kf8_merger_dynamic(spec, name):
        return "KF-8"
    return None


def classify_name_error(spec, problems):
    """Shared by every check that executes programs: map a NameError to KF-5 /
    KF-7 when (and only when) the mechanism matches."""
    for p in problems:
        if p.get("kind") == "exec-error" and p.get("etype") in ("NameError", "UnboundLocalError"):
            k = name_kf(spec, name_error_name(p.get("error")))
            if k:
                return k
    return None


def kf1_take_in_sum(spec, problems):
    """KF-1: take() inside a multi-term sum over-contributes.  Only
    over-contribution (values too large / extra elements with positive data)
    is explained; a missing or too-small element is not."""
    if "take-in-sum" not in spec.tags:
        has = any(len(e.terms) > 1 and any(t.kind == "take" for t in e.terms) for e in spec.exprs)
        if not has:
            return None
    ok = False
    for p in problems:
        if p.get("kind") == "value-mismatch":
            if p.get("n_missing") or p.get("n_under"):
                return None
            ok = True
        elif p.get("kind") in ("differs-from-unpartitioned",):
            continue
        else:
            return None
    return "KF-1" if ok else None


def kf9_output_only_multilevel(spec, problems):
    """KF-9: an output-only rank split into two or more shape levels (sizes
    symbolic, so the program runs): the ranges of the lower levels are clipped
    to the rank's full extent, not to the enclosing partition, so when an
    inner size does not divide the outer one some output elements are visited
    twice.  Explains only over-contribution (values too large)."""
    hit = False
    for e in spec.exprs:
        for r in output_only_ranks(spec, e):
            ps = (spec.partitioning or {}).get(e.out.name) or {}
            ds = ps.get(r) or []
            if len(ds) >= 2 and all(d.startswith(("uniform_shape", "nway_shape")) for d in ds):
                hit = True
    if not hit:
        return None
    ok = False
    for p in problems:
        if p.get("kind") == "value-mismatch":
            if p.get("n_missing") or p.get("n_under") or p.get("n_extra_inrange"):
                return None
            ok = True
        elif p.get("kind") in ("differs-from-unpartitioned", "differs-from-unmapped",
                               "seeds-disagree", "spacetime-changes-tensor"):
            continue
        else:
            return None
    return "KF-9" if ok else None


def kf10_double_flatten_rebinds_input(spec, problems):
    """KF-10: two static flatten groups on ONE input tensor.  If the second
    group's partitioning swizzle is emitted after the first group's
    flattenRanks (an order the dependence graph allows), the swizzle statement
    re-binds the input's own variable (<A>_<ranks> = <A>_<ranks>_flat.swizzleRanks(..))
    to a half-flattened tensor: the name lies and a later Einsum that reads the
    input again fails."""
    hit = False
    for ps in (spec.partitioning or {}).values():
        tuples = [k for k in (ps or {}) if k.startswith("(")]
        if len(tuples) >= 2:
            hit = True
    if not hit:
        return None
    # on the unchanged tree this has only been observed under C10's random
    # tie-breaks, never under the real sort: the same symptom under the real sort
    # is a fresh violation
    if not any(p.get("tiebreak") is not None for p in problems):
        return None
    ok = False
    for p in problems:
        k = p.get("kind")
        if k in ("name-lies", "input-name-rebound-differently", "input-name-lost"):
            ok = True
        elif k == "exec-error" and p.get("etype") == "ModelError" and \
                "swizzleRanks" in str(p.get("error")):
            ok = True
        elif k in ("output-unbound", "value-mismatch", "differs-from-unmapped"):
            continue
        else:
            return None
    return "KF-10" if ok else None


def kf17_output_is_leader(spec, problems):
    """KF-17: uniform_occupancy(<output>.n): inputs are split at the boundaries of the (still
    empty) output fiber, so every element is dropped and the result is EMPTY.  Explains only
    an empty result (nothing computed, nothing extra) for an Einsum whose mapping names its
    own output as occupancy leader."""
    outs = set()
    for e in spec.exprs:
        for ds in ((spec.partitioning or {}).get(e.out.name) or {}).values():
            if any(d.startswith("uniform_occupancy(%s." % e.out.name) for d in ds):
                outs.add(e.out.name)
    if not outs or not problems:
        return None
    # later Einsums of a cascade that read the empty result (directly or not) are wrong too
    down = set()
    for e in spec.exprs:
        if e.out.name not in outs and any(a.name in outs or a.name in down for a in e.inputs()):
            down.add(e.out.name)
    seen = False
    for p in problems:
        k = p.get("kind")
        t = p.get("tensor")
        if k == "value-mismatch" and t in outs and p.get("n_got") == 0 and not p.get("n_extra"):
            seen = True
            continue
        if k == "value-mismatch" and t in down:
            continue
        if k in ("differs-from-unmapped", "differs-from-unpartitioned") and \
                (t in outs or t in down):
            seen = seen or t in outs
            continue
        return None
    return "KF-17" if seen else None


def classify_plain(spec, problems):
    """The known findings that can show in any plain-mode execution."""
    return kf1_take_in_sum(spec, problems) or classify_name_error(spec, problems) or \
        kf17_output_is_leader(spec, problems) or \
        kf9_output_only_multilevel(spec, problems) or \
        kf10_double_flatten_rebinds_input(spec, problems)
