"""C08 - emission-order nondeterminism is benign.

Schedules: the real compiler runs in worker processes started with different
PYTHONHASHSEED values (8 quick, 48 thorough); every worker compiles the SAME
corpus, each spec twice.
Events: the text per (spec, seed); second text in the same process.
Oracle: within a process text1 == text2; across seeds every DISTINCT text of a
spec is closed (C06 oracle) and, executed on identical inputs on the reference
model, binds identical tensors under the same output names (and, in metrics
mode, passes the C12 trace checker and yields the same metrics dictionary
under content-addressed stand-ins)."""
import collections
import hashlib
import json
import os
import random
import subprocess
import sys
import tempfile

from .. import case as C, run, corpus, kf, model
from ..monitors import scope, traces
from ..spec import Spec
from ..yamlspec import symbolic_sizes
from . import common, mcommon, c04

ID = "C08"
NEEDS_MODEL = True
LEVEL = "exploration"
NSPECS = {"quick": 160, "thorough": 1000}
NSEEDS = {"quick": 8, "thorough": 64}
HERE = os.path.dirname(os.path.dirname(os.path.dirname(os.path.abspath(__file__))))
TECHNIQUE = ("runtime monitoring under schedule perturbation: worker processes with different "
             "PYTHONHASHSEED values compile one corpus; every distinct text is scope-checked and "
             "executed on identical inputs; tensors / metrics compared across texts")


def build_corpus(tier, seed):
    """[(key, spec json, mode, extents)] - built once, in the driver."""
    from ..gen import einsum as GE, mapping as GM
    items = []
    for s in mcommon.accel_specs():
        for m in ("metrics", "plain"):
            s2 = s.clone()
            if m == "plain":
                s2.extra = ""
                s2.spacetime = None
            items.append((s2, m, None))
    n = NSPECS[tier]
    i = mi = 0
    classes = ["shape", "occupancy2", "flatten", "occupancy", "metrics", "double-flatten",
               "cascade", "flatten3", "occupancy2", "metrics", "affine", "spacetime", "double-flatten",
               "flatten3", "plain", "flatten-lookup", "rewrite", "rewrite", "affine-cascade", "dynflatten2", "dynflatten2"]
    while len(items) < n and i < 10 * n:
        rnd = random.Random("%s-%d-%d" % (ID, seed, i))
        cls = classes[i % len(classes)]
        i += 1
        variant = None
        if cls == "metrics":
            vl = mcommon.VARIANTS + ["eager2"] * 3
            variant = vl[mi % len(vl)]
            mi += 1
        r = corpus.make(cls, rnd, variant)
        if r is None:
            continue
        spec, mode, ext = r
        if cls == "shape" and sum(1 for k in (spec.partitioning or {}).get("Z", {})) < 2:
            continue
        items.append((spec, mode, ext))
    out = []
    for spec, mode, ext in items:
        key = C.spec_key(spec, mode)
        out.append({"key": key, "spec": spec.to_json(), "mode": mode, "extents": ext,
                    "yaml": spec.yaml()})
    return out


def worker(corpus_file, out_file):
    items = json.load(open(corpus_file))
    res = {}
    for it in items:
        c1 = run.compile_yaml(it["yaml"], it["mode"])
        c2 = run.compile_yaml(it["yaml"], it["mode"])
        if c1.ok != c2.ok:
            res[it["key"]] = {"flip": True, "e1": c1.error, "e2": c2.error}
        elif not c1.ok:
            res[it["key"]] = {"error": "%s: %s" % (c1.etype, c1.error)}
        else:
            res[it["key"]] = {"text": c1.text, "same": c1.text == c2.text}
    json.dump({"hashseed": os.environ.get("PYTHONHASHSEED"), "res": res}, open(out_file, "w"))


def classify(spec, problems, extents=None):
    k = kf.classify_plain(spec, problems) or mcommon.kf6(spec, problems)
    k = k or mcommon.kf16(spec, problems)
    if k:
        return k
    if any(t in spec.tags for t in ("S1", "S2", "S3", "S4", "S5", "S6", "S8", "S9", "S10", "S11", "S12")):
        k = c04.classify(spec, problems, extents)
        if k:
            return k
    ok = True
    for p in problems:
        if p.get("kind") == "unbound-read":
            if not kf.name_kf(spec, p["name"]):
                ok = False
        else:
            ok = False
    if ok and problems:
        return "KF-5"
    return None


def analyse(in_file, out_file):
    """Analyse the distinct texts of a slice of the corpus."""
    items = json.load(open(in_file))
    st = common.Stats()
    for it in items:
        spec = Spec.from_json(it["spec"])
        mode = it["mode"]
        rnd = random.Random("%s-inputs-%s" % (ID, it["key"]))
        for sname in symbolic_sizes(spec):
            spec.syms.setdefault(sname, rnd.randint(2, 4))
        cs = C.make_case(spec, rnd, lo=2, hi=5, extents=it["extents"], mode=mode)
        texts = it["texts"]          # distinct texts, each with the seeds that produced it
        st.bump("monitor", "specs")
        st.bump("monitor", "distinct-texts", len(texts))
        st.bump("distinct_hist", str(len(texts)))
        results = []
        for t in texts:
            out = C.Outcome()
            out.compiled = run.Compiled(None, t["text"])
            probs, _ = scope.analyse(t["text"], scope.supplied_names(spec, mode))
            o2 = C.evaluate(cs, monitors=(), compiled=out.compiled, content_addressed=True)
            out.ex = o2.ex
            out.status = "ok"
            out.nontrivial = True
            static = {p.get("name") for p in probs}
            sig = None
            if o2.status == "ok":
                st.bump("monitor", "texts-executed")
                sig = {}
                for e in spec.exprs:
                    n = e.out.name
                    try:
                        tt, order = run.output_of(o2.ex, spec, n)
                        sig[n] = (tt.getRankIds(), sorted(tt.toDict().items()))
                    except KeyError:
                        sig[n] = "unbound"
                    except model.ModelUnsupported:
                        sig[n] = "unsupported"
                if mode == "metrics":
                    tp, _ = traces.check(o2.ex.rec.events, len(spec.exprs),
                                         o2.ex.all_loops_entered())
                    probs.extend(tp)
                    sig["__metrics__"] = json.dumps(check_jsonable(o2.ex.ns.get("metrics")),
                                                    sort_keys=True)
                    # the multiset of collection events (which streams are registered,
                    # which are produced in the loop nest and how often, which are consumed)
                    evs = collections.Counter(
                        json.dumps([kind, _ev_canon(d)], sort_keys=True)
                        for kind, d in o2.ex.rec.events
                        if kind in ("trace", "fiber_trace", "consumeTrace", "addTraces",
                                    "filterTrace", "buffetTraffic", "cacheTraffic", "numIters",
                                    "beginCollect", "endCollect", "registerRank", "matchRanks",
                                    "associateShape", "addUse", "incCount", "streamTraffic",
                                    "numSwaps", "getNumIntersects", "traffic"))
                    sig["__collection_events__"] = sorted(evs.items())
            elif o2.status == "exec-error":
                for p in o2.problems:
                    if kf.name_error_name(p.get("error")) not in static:
                        probs.append(p)
                sig = "exec-error:" + str(o2.message)[:80]
            results.append(sig)
            for p in probs:
                p["hashseeds"] = t["seeds"][:4]
            out.problems = probs
            st.account(ID, cs, out, lambda s, p: classify(s, p), mode_key=hashlib.sha1(
                t["text"].encode()).hexdigest()[:8])
        # all texts of one spec must compute the same thing
        ref = results[0] if results else None
        for t, r in zip(texts[1:], results[1:]):
            if r != ref:
                what = "differs"
                if isinstance(r, dict) and isinstance(ref, dict):
                    what = ",".join(k for k in r if r.get(k) != ref.get(k))
                out = C.Outcome()
                out.status = "ok"
                out.compiled = run.Compiled(None, t["text"])
                out.problems = [{"kind": "seeds-disagree", "what": what,
                                 "seeds_a": texts[0]["seeds"][:3], "seeds_b": t["seeds"][:3]}]
                st.account(ID, cs, out, lambda s, p: None, mode_key="disagree")
    json.dump(check_jsonable(st.result()), open(out_file, "w"))


def _ev_canon(o):
    """Event data without object identities (a fiber argument becomes its type name)."""
    if isinstance(o, dict):
        return {str(k): _ev_canon(v) for k, v in o.items()}
    if isinstance(o, (list, tuple, set)):
        return [_ev_canon(x) for x in o]
    if isinstance(o, (str, int, float, bool)) or o is None:
        return o
    return type(o).__name__


def check_jsonable(o):
    if isinstance(o, dict):
        return {str(k): check_jsonable(v) for k, v in o.items()}
    if isinstance(o, (list, tuple, set)):
        return [check_jsonable(x) for x in o]
    if isinstance(o, (str, int, float, bool)) or o is None:
        return o
    return repr(o)


def _run_all(cmds, envs, timeout):
    procs = []
    for cmd, env in zip(cmds, envs):
        procs.append(subprocess.Popen(cmd, cwd=HERE, env=env, stdout=subprocess.PIPE,
                                      stderr=subprocess.STDOUT))
    outs = []
    for p in procs:
        try:
            o, _ = p.communicate(timeout=timeout)
        except subprocess.TimeoutExpired:
            p.kill()
            o = b"watchdog"
        outs.append((p.returncode, o.decode(errors="replace")[-500:]))
    return outs


def custom_run(tier, seed, timeout):
    problems = []
    os.makedirs(os.path.join(HERE, ".work"), exist_ok=True)
    tmp = tempfile.mkdtemp(prefix="C08-", dir=os.path.join(HERE, ".work"))
    items = build_corpus(tier, seed)
    cf = os.path.join(tmp, "corpus.json")
    json.dump(items, open(cf, "w"))
    base = dict(os.environ, PYTHONDONTWRITEBYTECODE="1", TEAAL_VERIF="1",
                PYTHONPATH=HERE + os.pathsep + os.environ.get("VF_REPO", "/repo"))
    seeds = [(seed * 1000 + k) % 4294967295 for k in range(NSEEDS[tier])]
    # phase 1: one worker per hash seed (16 at a time)
    per_seed = {}
    for lo in range(0, len(seeds), 16):
        chunk = seeds[lo:lo + 16]
        cmds = [[sys.executable, "-m", "vf.checks.c08", "worker", cf,
                 os.path.join(tmp, "w%d.json" % h)] for h in chunk]
        envs = [dict(base, PYTHONHASHSEED=str(h)) for h in chunk]
        for h, (rc, o) in zip(chunk, _run_all(cmds, envs, timeout)):
            f = os.path.join(tmp, "w%d.json" % h)
            if rc != 0 or not os.path.exists(f):
                problems.append("worker for hash seed %d failed: %s" % (h, o))
                continue
            per_seed[h] = json.load(open(f))["res"]
    # group
    pre = common.Stats()
    work = []
    for it in items:
        k = it["key"]
        texts = {}
        errs = set()
        for h, res in per_seed.items():
            r = res.get(k)
            if r is None:
                continue
            pre.evaluations += 1
            if r.get("flip"):
                pre.violations.append({"property": ID, "known_finding": None,
                                       "summary": "same process, same spec: one compile fails, one "
                                                  "succeeds (hash seed %d)" % h,
                                       "problems": [{"kind": "acceptance-flips"}], "case": it})
            elif "error" in r:
                errs.add(r["error"])
            else:
                if not r["same"]:
                    pre.violations.append({"property": ID, "known_finding": None,
                                           "summary": "two compilations of one spec in one process "
                                                      "(hash seed %d) gave different text" % h,
                                           "problems": [{"kind": "same-process-text-differs"}],
                                           "case": it})
                texts.setdefault(r["text"], []).append(h)
        if errs and texts:
            pre.violations.append({"property": ID, "known_finding": None,
                                   "summary": "spec accepted under some hash seeds and refused under "
                                              "others: %r" % sorted(errs)[:2],
                                   "problems": [{"kind": "acceptance-depends-on-seed"}], "case": it})
        if errs and not texts:
            pre.bump("status", "rejected")
            pre.bump("rejected_msgs", common._short(sorted(errs)[0]))
        if texts:
            w = dict(it)
            w["texts"] = [{"text": t, "seeds": hs} for t, hs in texts.items()]
            work.append(w)
    pre.bump("monitor", "hash-seeds", len(per_seed))
    pre.bump("monitor", "same-process-repeats", pre.evaluations)
    # phase 2: analyse distinct texts, 16 slices
    ns = min(16, max(1, len(work)))
    cmds, envs = [], []
    for i in range(ns):
        f = os.path.join(tmp, "a%d.json" % i)
        json.dump(work[i::ns], open(f, "w"))
        cmds.append([sys.executable, "-m", "vf.checks.c08", "analyse", f,
                     os.path.join(tmp, "r%d.json" % i)])
        envs.append(dict(base, PYTHONHASHSEED="0"))
    results = [pre.result()]
    for i, (rc, o) in enumerate(_run_all(cmds, envs, timeout)):
        f = os.path.join(tmp, "r%d.json" % i)
        if rc != 0 or not os.path.exists(f):
            problems.append("analysis slice %d failed: %s" % (i, o))
            continue
        results.append(json.load(open(f)))
    for f in os.listdir(tmp):
        os.remove(os.path.join(tmp, f))
    os.rmdir(tmp)
    return results, problems


def shard(tier, seed, shard, nshards):
    raise RuntimeError("C08 uses custom_run")


def replay(v):
    c = v.get("case", {})
    if "spec" in c and "inputs" in c:
        cs = C.Case.from_json(c)
        compiled = run.compile_yaml(cs.spec.yaml(), cs.mode)
        st = common.Stats()
        if compiled.ok:
            probs, _ = scope.analyse(compiled.text, scope.supplied_names(cs.spec, cs.mode))
            out = C.Outcome()
            out.status = "ok"
            out.compiled = compiled
            out.problems = probs
            st.account(ID, cs, out, lambda s, p: classify(s, p))
        return st.violations
    return [{"summary": "replay needs the hash-seed sweep: re-run the check (%s)" % v.get("summary")}]


def finalize(results, counters, tier, seed):
    inc = []
    mon = counters.get("monitor", {})
    if mon.get("hash-seeds", 0) < NSEEDS[tier]:
        inc.append("only %d of %d hash-seed workers delivered" % (mon.get("hash-seeds", 0),
                                                                  NSEEDS[tier]))
    if mon.get("specs", 0) < NSPECS[tier] // 2:
        inc.append("too few specs analysed: %r" % mon)
    if mon.get("distinct-texts", 0) <= mon.get("specs", 0):
        inc.append("no spec produced more than one distinct text: the sweep observed no "
                   "nondeterminism to judge")
    cov = {"rule": "corpus of partitioned (>=2 ranks), flatten/occupancy, metrics, cascade, affine, "
                   "spacetime specs + the 5 accelerator specs in both modes, compiled twice by each "
                   "of %d worker processes with distinct PYTHONHASHSEED; evaluations = (spec, seed) "
                   "compilations; distinct = distinct (spec, text); non-trivial = text analysed and "
                   "executed" % NSEEDS[tier],
           "distinct_texts_per_spec_histogram": counters.get("distinct_hist", {}),
           "hash_seeds": NSEEDS[tier]}
    return cov, common.MODEL_ASSUMPTIONS + [
        "orders that no sampled hash seed produces are not observed (C10's tie-break "
        "perturbation covers the sort itself)",
        "metrics stand-ins return values that depend on the call's content, not on call order"], inc


if __name__ == "__main__":
    if sys.argv[1] == "worker":
        worker(sys.argv[2], sys.argv[3])
    elif sys.argv[1] == "analyse":
        analyse(sys.argv[2], sys.argv[3])
