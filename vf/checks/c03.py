"""C03 - occupancy partitioning and flattening never change the result.
Oracles: dense evaluation and differential against the unmapped compile.
Product Einsums only, as the property states."""
import os
import random

from .. import case as C, run, model, kf
from ..gen import einsum as G, mapping as M
from ..yamlspec import spec_from_yaml, symbolic_sizes
from . import common

ID = "C03"
NEEDS_MODEL = True
LEVEL = "exploration"
N = {"quick": 1440, "thorough": 36000}
ACCEL = ["sigma", "extensor", "outerspace", "demo", "gamma"]
PINNED = {
    "dyn_part": """
einsum:
  declaration:
    A: [K, M]
    B: [K, N]
    Z: [M, N]
  expressions:
    - Z[m, n] = A[k, m] * B[k, n]
mapping:
  partitioning:
    Z:
      K: [uniform_occupancy(A.6), uniform_occupancy(A.3)]
      N: [uniform_occupancy(B.5)]
  loop-order:
    Z: [K2, M, N1, K1, N0, K0]
""",
    "static_flattening": """
einsum:
  declaration:
    A: [K, M]
    B: [K, N]
    Z: [M, N]
  expressions:
    - Z[m, n] = A[k, m] * B[k, n]
mapping:
  partitioning:
    Z:
      K: [uniform_shape(4)]
      (M, K0): [flatten()]
      MK0: [uniform_occupancy(A.5)]
  loop-order:
    Z: [K1, MK01, N, MK00]
""",
    "dyn_flattening": """
einsum:
  declaration:
    A: [K, M]
    B: [K, N]
    Z: [M, N]
  expressions:
    - Z[m, n] = A[k, m] * B[k, n]
mapping:
  partitioning:
    Z:
      M: [uniform_shape(6)]
      K: [uniform_occupancy(A.4)]
      (M0, K0): [flatten()]
      M0K0: [uniform_occupancy(A.5)]
  loop-order:
    Z: [M1, K1, M0K01, N, M0K00]
"""}


def classify(spec, problems):
    return kf.classify_plain(spec, problems)


def fixed_corpus():
    out = []
    integ = os.path.join(run.REPO, "tests", "integration")
    for n in ACCEL:
        p = os.path.join(integ, n + ".yaml")
        if os.path.exists(p):
            s = spec_from_yaml(open(p).read(), keep_extra=False)
            s.spacetime = None
            s.tags = ["accel-" + n]
            out.append(s)
    for n, y in PINNED.items():
        s = spec_from_yaml(y)
        s.tags = ["pinned-" + n]
        out.append(s)
    return out


def gen_case(seed, shard, i):
    rnd = random.Random("%s-%d-%d-%d" % (ID, seed, shard, i))
    for _ in range(60):
        base, info = G.gen_plain(rnd, products_only=True, allow_take=False,
                                 allow_scalar=(i % 4 == 0), max_ranks=3,
                                 allow_rank0=(i % 5 == 0))
        if i % 16 == 7:
            return M.gen_flatten3_discordant(rnd), rnd
        if i % 16 == 11:
            return M.gen_flatten_lookup(rnd), rnd
        if i % 16 == 3:
            return M.gen_two_dynamic_flattens(rnd), rnd
        if i % 16 == 15:
            base, info = G.gen_plain(rnd, products_only=True, allow_take=False, max_ranks=4)
            s = M.add_double_flatten(rnd, base, info)
        elif i % 2 == 0:
            force = [None, "two-level", "beneath-shape"][(i // 2) % 3]
            s = M.add_occupancy(rnd, base, info, force=force)
        else:
            force = [None, "split-then-flatten", "flatten-occupancy"][(i // 2) % 3]
            s = M.add_flatten(rnd, base, info, force=force)
        if s is not None:
            return s, rnd
    return None, rnd


def run_one(st, spec, rnd, lo=2, hi=7):
    for sname in symbolic_sizes(spec):
        spec.syms.setdefault(sname, rnd.randint(1, 5))
    cs = C.make_case(spec, rnd, lo=lo, hi=hi)
    out = C.evaluate(cs)
    if out.status == "ok" and not out.problems:
        ref = M.unpartitioned_of(spec)
        cs2 = C.Case(ref, cs.extents, cs.inputs, cs.scalars)
        o2 = C.evaluate(cs2, monitors=())
        if o2.status == "ok":
            st.bump("diff", "ran")
            for e in spec.exprs:
                n = e.out.name
                try:
                    a, oa = run.output_of(out.ex, spec, n)
                    b, ob = run.output_of(o2.ex, ref, n)
                    if run.from_order(a.toDict(), spec.decl[n], oa) != \
                            run.from_order(b.toDict(), ref.decl[n], ob):
                        out.problems.append({"kind": "differs-from-unmapped", "tensor": n})
                except (KeyError, model.ModelUnsupported):
                    continue
    st.account(ID, cs, out, classify)


def shard(tier, seed, shard, nshards):
    st = common.Stats()
    n = N[tier] // nshards
    if shard == 0:
        for s in fixed_corpus():
            for rep in range(2 if tier == "quick" else 8):
                run_one(st, s.clone(), random.Random("%s-fixed-%d-%d" % (ID, seed, rep)), 3, 8)
    for i in range(n):
        spec, rnd = gen_case(seed, shard, i)
        if spec is None:
            st.bump("status", "generator-gave-up")
            continue
        run_one(st, spec, rnd)
    return st.result()


def replay(v):
    cs = C.Case.from_json(v["case"])
    st = common.Stats()
    st.account(ID, cs, C.evaluate(cs), classify)
    return st.violations


def finalize(results, counters, tier, seed):
    inc = []
    if counters.get("status", {}).get("ok", 0) < N[tier] // 4:
        inc.append("too few accepted cases: %r" % counters.get("status"))
    need = ["occupancy", "occ-two-level", "occ-beneath-shape", "occ-with-follower", "flatten",
            "flatten-occupancy", "split-then-flatten", "flatten-discordant"]
    miss = [s for s in need if counters.get("strata_ok", {}).get(s, 0) == 0]
    if miss:
        inc.append("strata never executed: %r" % miss)
    ev = counters.get("events", {})
    for k in ("split", "flatten"):
        if ev.get(k, 0) == 0:
            inc.append("model never saw a %s call" % k)
    cov = {"rule": "single-term product Einsums (<=3 ranks) x {uniform_occupancy stacks (1-2 levels, "
                   "optionally beneath a shape split, leader = any input holding the rank, sizes 1..5)"
                   " | flatten of 2-3 ranks of one input (optionally after a shape split, optionally "
                   "followed by uniform_occupancy)} x well-ordered random loop orders; plus the 5 "
                   "accelerator specs and 3 pinned programs; non-trivial = accepted, all loops "
                   "iterated, >=1 update"}
    return cov, common.MODEL_ASSUMPTIONS + [
        "splitEqual(n): boundaries every n elements, upper coordinate = first coordinate of the group",
        "splitNonUniform(fiber): boundaries at the fiber's coordinates; elements below the first "
        "boundary are dropped (indistinguishable for products)",
        "flattenRanks tuple coordinates; getPayload of an absent coordinate yields the default"], inc
