"""Mapping generators: shape partitioning (C02), occupancy partitioning and
flattening (C03)."""
from ..spec import Spec


def levels_of(rank, n):
    """Level names of a rank split by n directives, outermost first."""
    return [rank + str(j) for j in range(n, -1, -1)]


def interleave(rnd, groups, ordered=True):
    """Random loop order over groups of levels.  ordered: each group's levels
    stay outermost->innermost; otherwise any permutation."""
    if not ordered:
        lo = [x for g in groups for x in g]
        rnd.shuffle(lo)
        return lo
    pool = [list(g) for g in groups]
    lo = []
    while any(pool):
        c = rnd.choice([p for p in pool if p])
        lo.append(c.pop(0))
    return lo


def shape_stack(rnd, rank, n, syms, sym_p=0.3, max_size=6, force_kind=None,
                conventional=True):
    st = []
    for i in range(n):
        kind = force_kind[i] if force_kind else rnd.choice(
            ["uniform_shape", "uniform_shape", "nway_shape"])
        sz = rnd.randint(1, max_size)
        if rnd.random() < sym_p:
            j = n - i
            nm = "%s%d" % (rank, j - 1) if conventional else "%s%dS" % (rank, j)
            syms[nm] = sz
            st.append("%s(%s)" % (kind, nm))
        else:
            st.append("%s(%d)" % (kind, sz))
    return st


def _set_map(s, out, parts, lo):
    pt = dict(s.partitioning or {})
    pt[out] = parts
    s.partitioning = pt
    l = dict(s.loop_order or {})
    l[out] = lo
    s.loop_order = l


def add_shape_partitioning(rnd, spec, info, ordered=None, force=None, ei=0):
    """Return a new Spec with shape partitioning on a random non-empty subset
    of ranks and a loop order over all resulting levels."""
    s = spec.clone()
    out = s.exprs[ei].out.name
    ranks = list(info["ranks"])
    parts = {}
    syms = {}
    groups = []
    tags = []
    chosen = [r for r in ranks if rnd.random() < 0.55]
    if not chosen:
        chosen = [rnd.choice(ranks)]
    if force == "contracted-outer" and info["contracted"]:
        c = rnd.choice(info["contracted"])
        if c not in chosen:
            chosen.append(c)
    for r in ranks:
        if r in chosen:
            n = rnd.choice([1, 1, 2, 2, 3])
            fk = None
            if force == "three-level":
                n = 3
            if force == "nway-above-uniform":
                n = max(n, 2)
                fk = ["nway_shape"] + ["uniform_shape"] * (n - 1)
            msz = 6
            st = shape_stack(rnd, r, n, syms, force_kind=fk, max_size=msz)
            if force == "size1":
                st[rnd.randrange(n)] = "uniform_shape(1)"
            if force == "size-big":
                st[0] = "uniform_shape(11)"
            parts[r] = st
            groups.append(levels_of(r, n))
            if n == 3:
                tags.append("three-level")
            if any(x.startswith("nway") for x in st[:-1]) and any(
                    x.startswith("uniform") for x in st[1:]):
                tags.append("nway-above-uniform")
            if any("(1)" in x for x in st):
                tags.append("size1")
            if r in info["contracted"]:
                tags.append("part-contracted")
            if r in s.decl[out]:
                tags.append("part-output")
        else:
            groups.append([r])
    if ordered is None:
        ordered = rnd.random() < 0.5
    lo = interleave(rnd, groups, ordered)
    if force == "contracted-outer" and info["contracted"]:
        # move the outermost level of a partitioned contracted rank first
        for c in info["contracted"]:
            if c in parts:
                top = levels_of(c, len(parts[c]))[0]
                lo.remove(top)
                lo.insert(0, top)
                tags.append("part-contracted-outer")
                break
    tags.append("ordered" if ordered else "unordered")
    if syms:
        tags.append("symbolic")
    _set_map(s, out, parts, lo)
    s.syms.update(syms)
    s.tags = list(s.tags) + tags
    return s


def unpartitioned_of(spec):
    """The same Einsum without partitioning (default loop order)."""
    s = spec.clone()
    s.partitioning = None
    s.loop_order = None
    s.syms = {}
    return s


# ------------------------------------------------------------------ C03

def add_occupancy(rnd, spec, info, force=None, ei=0):
    """uniform_occupancy stacks (optionally beneath one shape split) on a
    random subset of ranks; leader = any input holding the rank; loop order
    keeps each rank's levels outermost->innermost."""
    s = spec.clone()
    e = s.exprs[ei]
    out = e.out.name
    ranks = list(info["ranks"])
    holders = {}
    for a in e.inputs():
        for r in s.decl[a.name]:
            holders.setdefault(r, []).append(a.name)
    cands = [r for r in ranks if holders.get(r)]
    if not cands:
        return None
    chosen = [r for r in cands if rnd.random() < 0.5]
    if not chosen:
        chosen = [rnd.choice(cands)]
    parts, groups, tags, syms = {}, [], [], {}
    for r in ranks:
        if r in chosen:
            nocc = rnd.choice([1, 1, 2])
            if force == "two-level":
                nocc = 2
            shape = rnd.random() < 0.3 or force == "beneath-shape"
            st = []
            n = nocc + (1 if shape else 0)
            if shape:
                st.append("uniform_shape(%d)" % rnd.randint(2, 6))
                tags.append("occ-beneath-shape")
            leader = rnd.choice(holders[r])
            vary = rnd.random() < 0.5
            if r in s.decl[out] and rnd.random() < 0.06:
                # the OUTPUT holds the rank too and is named as leader (KF-17)
                leader, vary = out, False
                tags.append("occ-output-is-leader")
            for i in range(nocc):
                if vary and i > 0:
                    l2 = rnd.choice(holders[r])
                    if l2 != leader:
                        tags.append("occ-leader-per-level")
                    leader = l2
                sz = rnd.randint(1, 5)
                if rnd.random() < 0.15:
                    nm = "%s%dSZ" % (r, i)
                    syms[nm] = sz
                    st.append("uniform_occupancy(%s.%s)" % (leader, nm))
                else:
                    st.append("uniform_occupancy(%s.%d)" % (leader, sz))
            parts[r] = st
            groups.append(levels_of(r, n))
            if nocc == 2:
                tags.append("occ-two-level")
            if len(holders[r]) > 1:
                tags.append("occ-with-follower")
            if r not in s.decl[out]:
                tags.append("occ-contracted")
            else:
                tags.append("occ-output")
        else:
            groups.append([r])
    lo = interleave(rnd, groups, True)
    _set_map(s, out, parts, lo)
    s.syms.update(syms)
    s.tags = list(s.tags) + tags + ["occupancy"]
    return s


def names_nest(spec):
    """True if one rank name is a prefix of another (N / NW, M / MN): together with flatten()
    the concatenated names of flattened ranks and partition levels become ambiguous for the
    USER as well (is NW0 level 0 of NW or the flattening of N and W0?), so the flatten
    generators leave such specs alone."""
    rs = sorted({r for v in spec.decl.values() for r in v})
    return any(a != b and b.startswith(a) for a in rs for b in rs)


def add_flatten(rnd, spec, info, force=None, ei=0):
    """flatten() of 2-3 ranks of one input tensor, optionally after a shape
    split of the last one (as sigma does) and optionally followed by
    uniform_occupancy of the flattened rank."""
    s = spec.clone()
    if names_nest(s):
        return None
    e = s.exprs[ei]
    out = e.out.name
    cands = [a.name for a in e.inputs() if len(s.decl[a.name]) >= 2]
    if not cands:
        return None
    tname = rnd.choice(cands)
    tr = list(s.decl[tname])
    k = rnd.choice([2, 2, 3]) if len(tr) >= 3 else 2
    fr = rnd.sample(tr, k)
    # the output may hold at most one flattened rank (two crash the compiler)
    outs = [r for r in fr if r in s.decl[out]]
    many_out = len(outs) > 1 and rnd.random() < 0.35
    if len(outs) > 1 and not many_out:
        keep = outs[0]
        fr = [r for r in fr if r not in outs or r == keep]
        extra = [r for r in tr if r not in fr and r not in s.decl[out]]
        while len(fr) < 2 and extra:
            fr.append(extra.pop())
        if len(fr) < 2:
            return None
    parts, tags = {}, ["flatten"]
    if many_out:
        tags.append("flatten-several-output-ranks")
    ranks = list(info["ranks"])
    groups = []
    flat_members = list(fr)
    pre_split = None
    if (rnd.random() < 0.4 or force == "split-then-flatten"):
        pre_split = rnd.choice(fr)
        if rnd.random() < 0.35:
            # dynamic flattening: the member is split by occupancy first
            parts[pre_split] = ["uniform_occupancy(%s.%d)" % (tname, rnd.randint(2, 5))]
            tags.append("dynamic-flatten")
        else:
            parts[pre_split] = ["uniform_shape(%d)" % rnd.randint(2, 5)]
        flat_members = [r if r != pre_split else r + "0" for r in fr]
        tags.append("split-then-flatten")
    rnd.shuffle(flat_members)
    flat_name = "".join(flat_members)
    if any(flat_name == r for rs in s.decl.values() for r in rs):
        return None          # the flattened rank would be named like an existing rank
    parts["(%s)" % ", ".join(flat_members)] = ["flatten()"]
    occ = rnd.random() < 0.6 or force == "flatten-occupancy"
    if occ:
        parts[flat_name] = ["uniform_occupancy(%s.%d)" % (tname, rnd.randint(1, 6))]
        tags.append("flatten-occupancy")
        flat_levels = [flat_name + "1", flat_name + "0"]
    else:
        flat_levels = [flat_name]
    # loop order: other ranks and the flattened levels interleaved; the split
    # upper level (if any) must come before the flattened rank
    others = [[r] for r in ranks if r not in fr]
    if pre_split:
        lo = interleave(rnd, others + [[pre_split + "1"] + flat_levels], True)
    else:
        lo = interleave(rnd, others + [flat_levels], True)
    if any(len([r for r in fr if r in s.decl[a.name]]) not in (0, len(fr))
           for a in e.inputs() if a.name != tname):
        tags.append("flatten-discordant")
    _set_map(s, out, parts, lo)
    s.tags = list(s.tags) + tags
    return s


def add_double_flatten(rnd, spec, info, ei=0):
    """Two interleaved flattenings of one 4-rank input, e.g. (M, O) and (N, P)
    of A[M, N, O, P]; loop order: the two flattened ranks, then the rest."""
    s = spec.clone()
    if names_nest(s):
        return None
    e = s.exprs[ei]
    out = e.out.name
    cands = [a.name for a in e.inputs() if len(s.decl[a.name]) >= 4]
    if not cands:
        return None
    tname = rnd.choice(cands)
    tr = list(s.decl[tname])
    four = rnd.sample(tr, 4)
    t1, t2 = [four[0], four[2]], [four[1], four[3]]
    for t in (t1, t2):
        if len([r for r in t if r in s.decl[out]]) > 1 and rnd.random() < 0.7:
            return None
    parts = {}
    split = None
    if rnd.random() < 0.35:
        # the second group holds a rank that only exists after a (shape) split
        split = t2[0]
        parts[split] = ["uniform_shape(%d)" % rnd.randint(2, 4)]
        t2 = [split + "0", t2[1]]
    parts.update({"(%s)" % ", ".join(t1): ["flatten()"], "(%s)" % ", ".join(t2): ["flatten()"]})
    if rnd.random() < 0.5:
        parts = dict(reversed(list(parts.items())))
    flats = ["".join(t1), "".join(t2)]
    if any(f == r for f in flats for rs in s.decl.values() for r in rs):
        return None
    others = [[r] for r in info["ranks"] if r not in four]
    g2 = [flats[1]] if split is None else [split + "1", flats[1]]
    groups = [[flats[0]], g2]
    rnd.shuffle(groups)
    lo = interleave(rnd, others + groups, True)
    _set_map(s, out, parts, lo)
    s.tags = list(s.tags) + ["flatten", "double-flatten"] + (
        ["double-flatten-after-split"] if split else [])
    return s


def gen_flatten3_discordant(rnd):
    """Three (or four) ranks of A flattened together while B holds two or more
    - but not all - of them, so B is reached with a multi-coordinate
    getPayload(...):  Z[m, n] = A[j, k, m] * B[j, k, n], (J, K, M): [flatten()]."""
    from .einsum import _acc
    names = rnd.sample(["J", "K", "M", "P", "Q"], rnd.choice([3, 3, 4]))
    x = "N"
    a_ranks = list(names)
    rnd.shuffle(a_ranks)
    nb = rnd.randint(2, len(names) - 1)
    b_held = rnd.sample(names, nb)
    b_ranks = b_held + ([x] if rnd.random() < 0.8 else [])
    rnd.shuffle(b_ranks)
    out_from_flat = rnd.choice([r for r in names if r not in b_held] or names)
    out_ranks = [out_from_flat] + ([x] if x in b_ranks else [])
    rnd.shuffle(out_ranks)
    decl = {"A": a_ranks, "B": b_ranks, "Z": out_ranks}
    from ..spec import Term, Einsum as E
    facs = [_acc("A", a_ranks), _acc("B", b_ranks)]
    rnd.shuffle(facs)
    e = E(_acc("Z", out_ranks), [Term("times", facs)])
    tup = list(names)
    rnd.shuffle(tup)
    flat = "".join(tup)
    parts = {"(%s)" % ", ".join(tup): ["flatten()"]}
    lo = [flat] + ([x] if x in b_ranks else [])
    if rnd.random() < 0.5:
        lo.reverse()
    ro = {}
    for t, rs in decl.items():
        q = list(rs)
        rnd.shuffle(q)
        ro[t] = q
    s = Spec(decl, [e], rank_order=ro, partitioning={"Z": parts}, loop_order={"Z": lo},
             tags=["flatten", "flatten-discordant", "flatten3-discordant-multi"])
    return s


def gen_flatten_lookup(rnd):
    """A flattening whose loop fetches a fiber of a tensor OUTSIDE the
    flattening, which is then partitioned (dynamically or statically) below
    an unrelated loop:
        Z[n, p] = A[k, m] * B[k, n] * C[p];  (M, K): flatten(); [MK: occupancy(A.k)];
        N: occupancy(B.k) | shape(k);  loop order [MK.., P, N..]."""
    from .einsum import _acc
    from ..spec import Term, Einsum as E
    f1, f2, x, y = rnd.sample(["K", "M", "N", "P", "J", "Q"], 4)
    a_ranks = [f1, f2]
    rnd.shuffle(a_ranks)
    shared = rnd.choice([f1, f2])
    b_ranks = [shared, x]
    rnd.shuffle(b_ranks)
    facs = [_acc("A", a_ranks), _acc("B", b_ranks)]
    decl = {"A": a_ranks, "B": b_ranks}
    extra = rnd.random() < 0.75
    if extra:
        c_ranks = [y] + ([shared] if rnd.random() < 0.2 else [])
        decl["C"] = c_ranks
        facs.append(_acc("C", c_ranks))
    rnd.shuffle(facs)
    out_ranks = [x] + ([y] if extra and rnd.random() < 0.7 else [])
    other = f1 if shared == f2 else f2
    if rnd.random() < 0.3:
        out_ranks.append(other)
    rnd.shuffle(out_ranks)
    decl["Z"] = out_ranks
    e = E(_acc("Z", out_ranks), [Term("times", facs)])
    tup = [f1, f2]
    rnd.shuffle(tup)
    flat = "".join(tup)
    parts = {"(%s)" % ", ".join(tup): ["flatten()"]}
    tags = ["flatten", "flatten-lookup"]
    if rnd.random() < 0.6:
        parts[flat] = ["uniform_occupancy(A.%d)" % rnd.randint(2, 6)]
        fl = [flat + "1", flat + "0"]
        tags.append("flatten-occupancy")
    else:
        fl = [flat]
    kind = rnd.choice(["occ", "occ", "shape", "none"])
    if kind == "occ":
        parts[x] = ["uniform_occupancy(B.%d)" % rnd.randint(2, 5)]
        xl = [x + "1", x + "0"]
        tags.append("lookup-then-occupancy")
    elif kind == "shape":
        parts[x] = ["uniform_shape(%d)" % rnd.randint(2, 4)]
        xl = [x + "1", x + "0"]
        tags.append("lookup-then-shape")
    else:
        xl = [x]
    mid = [y] if extra else []
    if rnd.random() < 0.7:
        lo = fl + mid + xl
    else:
        lo = interleave(rnd, [fl, mid, xl], True) if mid else fl + xl
    ro = {}
    for t, rs in decl.items():
        q = list(rs)
        if rnd.random() < 0.5:
            rnd.shuffle(q)
        ro[t] = q
    return Spec(decl, [e], rank_order=ro, partitioning={"Z": parts}, loop_order={"Z": lo},
                tags=tags)


def gen_two_dynamic_flattens(rnd):
    """One tensor with TWO dynamic flattenings, each enabled by its own occupancy split:
        Z[x, y] = A[k, x, m, y] * B[k, m];  K: occupancy(A.a), M: occupancy(A.b),
        (K0, X): flatten(), (M0, Y): flatten();  loop order [K1, K0X, M1, M0Y] (and others)."""
    from .einsum import _acc
    from ..spec import Term, Einsum as E
    k, x, m, y = rnd.sample(["K", "X", "M", "Y", "J", "N", "P", "Q"], 4)
    a_ranks = [k, x, m, y]
    if rnd.random() < 0.3:
        a_ranks = [m, y, k, x] if rnd.random() < 0.5 else [k, m, x, y]
    b_ranks = rnd.choice([[k, m], [m, k], [k], [m]])
    out = rnd.choice([[x, y], [y, x], [x], [y]])
    decl = {"A": a_ranks, "B": b_ranks, "Z": out}
    facs = [_acc("A", a_ranks), _acc("B", b_ranks)]
    rnd.shuffle(facs)
    e = E(_acc("Z", out), [Term("times", facs)])
    parts = {k: ["uniform_occupancy(A.%d)" % rnd.randint(2, 5)],
             m: ["uniform_occupancy(A.%d)" % rnd.randint(2, 5)],
             "(%s0, %s)" % (k, x): ["flatten()"],
             "(%s0, %s)" % (m, y): ["flatten()"]}
    items = list(parts.items())
    rnd.shuffle(items)
    parts = dict(items)
    g1 = [k + "1", k + "0" + x]
    g2 = [m + "1", m + "0" + y]
    lo = rnd.choice([g1 + g2, g2 + g1, [g1[0], g2[0], g1[1], g2[1]], [g1[0], g2[0], g2[1], g1[1]],
                     g1 + g2])
    return Spec(decl, [e], partitioning={"Z": parts}, loop_order={"Z": lo},
                tags=["flatten", "dynamic-flatten", "two-dynamic-flattens"])


def gen_occ_then_shape(rnd):
    """A rank split by occupancy and then by SHAPE beneath it, with a second input following
    the leader (K: [uniform_occupancy(A.6), uniform_shape(3)], Z = A[k, m] * B[k, n]).  The
    unchanged compiler crashes on this family (cyclic flow graph: counted as compiler_crash,
    never as a violation); it is kept so that a change which makes it "work" is judged."""
    from .einsum import _acc
    from ..spec import Term, Einsum as E
    k, m, n = rnd.sample(["K", "M", "N", "J", "P"], 3)
    decl = {"A": [k, m], "B": rnd.choice([[k, n], [k], [n, k]]), "Z": rnd.choice([[m, n], [m], [n, m]])}
    if n not in decl["B"]:
        decl["Z"] = [m]
    facs = [_acc("A", decl["A"]), _acc("B", decl["B"])]
    rnd.shuffle(facs)
    e = E(_acc("Z", decl["Z"]), [Term("times", facs)])
    parts = {k: ["uniform_occupancy(%s.%d)" % (rnd.choice(["A", "B"]), rnd.randint(3, 6)),
                 "uniform_shape(%d)" % rnd.randint(2, 3)]}
    ranks = [r for r in (k, m, n) if any(r in decl[t] for t in decl)]
    groups = [[k + "2", k + "1", k + "0"]] + [[r] for r in ranks if r != k]
    lo = interleave(rnd, groups, True)
    return Spec(decl, [e], partitioning={"Z": parts}, loop_order={"Z": lo},
                tags=["occupancy", "occupancy-then-shape"])
