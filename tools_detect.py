"""Run checks against seeded changes applied in a scratch worktree (VF_REPO),
never in /repo.  Usage: tools_detect.py [Cxx:n ...]  (default: all verified)."""
import json
import os
import re
import subprocess
import sys
import time

WT = os.environ.get("DETECT_WT", "/tmp/wtm")
PY = "/venv/bin/python"
OUT = os.environ.get("DETECT_OUT", "/verif/seeded/detection.json")
# which checks to run for a change seeded against property X (its own first)
EXTRA = {"C07": ["C02"], "C05": ["C06", "C15"], "C10": ["C11", "C04"], "C16": ["C06"], "C06": ["C16", "C04", "C12"],
         "C19": ["C15"], "C01": ["C04", "C05"], "C02": ["C05", "C04"]}


def sh(cmd, **kw):
    r = subprocess.run(cmd, shell=True, capture_output=True, text=True, **kw)
    return r.returncode, r.stdout + r.stderr


def main():
    ver = json.load(open("/verif/seeded/verification.json"))
    want = sys.argv[1:]
    jobs = [(v["property"], v["n"]) for v in ver if v.get("valid")]
    if want:
        jobs = [(w.split(":")[0], int(w.split(":")[1])) for w in want]
    if not os.path.isdir(WT):
        sh("git -C /repo worktree add -q --detach %s HEAD" % WT)
    head = sh("git -C /repo rev-parse HEAD")[1].strip()
    sh("git -C %s checkout -q --detach %s" % (WT, head))
    try:
        res = json.load(open(OUT))
    except Exception:
        res = {}
    env = dict(os.environ, VF_REPO=WT, VF_EVIDENCE_DIR="/tmp/vf_evid", VF_REPLAY_DIR="/tmp/vf_replay")
    env.pop("PYTHONHASHSEED", None)
    for pid, n in jobs:
        sh("git -C %s checkout -q -- . && git -C %s clean -fdq" % (WT, WT))
        patch = "/verif/seeded/%s-%d/patch.diff" % (pid, n)
        rc, out = sh("git -C %s apply %s" % (WT, patch))
        if rc:
            print(pid, n, "patch does not apply", out[-200:])
            continue
        key = "%s:%d" % (pid, n)
        res.setdefault(key, {})
        for chk in [pid] + EXTRA.get(pid, []):
            if chk != pid and os.environ.get("DETECT_OWN_FIRST") and \
                    res[key].get(pid, {}).get("exit") == 1:
                continue          # own check already reports it: extras only on a miss
            t0 = time.time()
            rc, out = sh("%s -m vf.check %s --tier quick" % (PY, chk), cwd="/verif", env=env)
            viol = [l for l in out.splitlines() if l.startswith("VIOLATION")]
            summ = [l.strip() for l in out.splitlines() if l.startswith("  ")][:2]
            last = out.strip().splitlines()[-1] if out.strip() else ""
            res[key][chk] = {"exit": rc, "violations": len(viol), "example": summ[:1],
                             "last": last[:200], "wall": round(time.time() - t0, 1)}
            print(key, chk, "exit", rc, "violations", len(viol), (summ[:1] or [""])[0][:150],
                  flush=True)
            json.dump(res, open(OUT, "w"), indent=1)
    sh("git -C %s checkout -q -- ." % WT)
    sh("git -C /repo worktree remove --force %s" % WT)


if __name__ == "__main__":
    main()
