"""C10 oracle over a recorded FlowGraph: graph G, order before hoisting, order
after hoisting (for the graph the translator actually used)."""
import networkx as nx


def _names():
    from teaal.ir.flow_nodes import LoopNode, EndLoopNode, OtherNode
    return LoopNode, EndLoopNode, OtherNode


def check_record(rec):
    """Returns (problems, stats)."""
    LoopNode, EndLoopNode, OtherNode = _names()
    g = rec["graph"]
    pre = rec["presort"]
    post = rec["posthoist"]
    lo = rec["loop_order"]
    problems = []
    stats = {"nodes": g.number_of_nodes(), "edges": g.number_of_edges(), "hoisted": 0}
    # (0) both orders are permutations of the graph's nodes
    if sorted(map(repr, pre)) != sorted(map(repr, g.nodes)) or len(set(pre)) != len(pre):
        problems.append({"kind": "presort-not-a-permutation"})
    if sorted(map(repr, post)) != sorted(map(repr, g.nodes)) or len(set(post)) != len(post):
        problems.append({"kind": "posthoist-not-a-permutation"})
        return problems, stats
    pos = {n: i for i, n in enumerate(post)}
    ppos = {n: i for i, n in enumerate(pre)}
    # (i) linear extension
    for u, v in g.edges:
        if pos[u] >= pos[v]:
            problems.append({"kind": "dependence-violated", "before": repr(v), "after": repr(u)})
            if len(problems) > 5:
                break
    for u, v in g.edges:
        if ppos.get(u, -1) >= ppos.get(v, 1 << 30):
            problems.append({"kind": "presort-dependence-violated", "before": repr(v),
                             "after": repr(u)})
            break
    # (ii) bracket structure
    stack = []
    seq = []
    body = OtherNode("Body")
    for n in post:
        if isinstance(n, LoopNode):
            stack.append(n.get_rank())
            seq.append(n.get_rank())
        elif isinstance(n, EndLoopNode):
            if not stack or stack[-1] != n.get_rank():
                problems.append({"kind": "unbalanced-loop-brackets", "at": repr(n),
                                 "open": list(stack)})
                break
            stack.pop()
        elif n == body:
            if stack != lo:
                problems.append({"kind": "body-not-innermost", "open": list(stack), "loop_order": lo})
    if stack:
        problems.append({"kind": "unclosed-loops", "open": list(stack)})
    if seq != lo:
        problems.append({"kind": "loops-not-in-loop-order", "opened": seq, "loop_order": lo})
    if body not in pos:
        problems.append({"kind": "no-body-node"})
    # (iii) hoist legality: a node that moved from after Loop(r) to before it
    # must not transitively depend on Loop(r)
    for r in lo:
        ln = LoopNode(r)
        if ln not in pos:
            continue
        desc = nx.descendants(g, ln)
        for n in post:
            if n is ln or n == ln:
                continue
            if ppos[n] > ppos[ln] and pos[n] < pos[ln]:
                stats["hoisted"] += 1
                if n in desc:
                    problems.append({"kind": "hoisted-dependent-node", "node": repr(n), "loop": r})
    # nothing that depends on a loop sits outside it (before Loop or after EndLoop)
    for r in lo:
        ln, en = LoopNode(r), EndLoopNode(r)
        if ln in pos and en in pos:
            for n in nx.descendants(g, ln):
                if pos[n] < pos[ln]:
                    problems.append({"kind": "dependent-before-loop", "node": repr(n), "loop": r})
    return problems, stats


def intersection_operands(text):
    """Text monitor for `Fiber.intersection(f1, .., fn, style=...)` in a loop header:
    the operands are distinct fiber variables and they belong to exactly the tensors whose
    payloads the header destructures (the ORDER is not judged here: KF-6 is about order).
    Returns (problems, number of calls seen)."""
    import ast
    problems, seen = [], 0
    try:
        tree = ast.parse(text)
    except SyntaxError:
        return problems, seen

    def names(t):
        if isinstance(t, ast.Name):
            return [t.id]
        if isinstance(t, (ast.Tuple, ast.List)):
            return [n for e in t.elts for n in names(e)]
        return []
    for node in ast.walk(tree):
        if not isinstance(node, ast.For):
            continue
        for call in ast.walk(node.iter):
            if isinstance(call, ast.Call) and isinstance(call.func, ast.Attribute) and \
                    call.func.attr == "intersection" and isinstance(call.func.value, ast.Name) \
                    and call.func.value.id == "Fiber":
                seen += 1
                args = [a.id for a in call.args if isinstance(a, ast.Name)]
                if len(args) != len(call.args):
                    continue
                if len(set(args)) != len(args):
                    problems.append({"kind": "intersection-operands", "what": "duplicate operand",
                                     "operands": args, "line": node.lineno})
                    continue
                # payload names destructured by the header: the last element of the target
                tgt = node.target
                pay = tgt.elts[-1] if isinstance(tgt, ast.Tuple) and tgt.elts else None
                got = sorted(n.split("_")[0] for n in names(pay)) if pay is not None else None
                want = sorted(a.split("_")[0] for a in args)
                # the header may also destructure the output's payload (z_ref / z_n) first
                if got is not None and not all(w in got for w in want):
                    problems.append({"kind": "intersection-operands",
                                     "what": "operands are not the tensors the header destructures",
                                     "operands": args, "destructured": names(pay),
                                     "line": node.lineno})
    return problems, seen
