"""C06 - every emitted program is valid, closed Python.  Oracle: ast.parse +
flow-sensitive definite-assignment analysis with the user-supplied name set
derived from the specification alone; cross-check: NameErrors observed while
the program runs on the reference model."""
import random

from .. import case as C, run, corpus, kf
from ..monitors import scope
from ..yamlspec import spec_from_yaml, symbolic_sizes
from . import common

ID = "C06"
NEEDS_MODEL = True
LEVEL = "exploration"
N = {"quick": 3200, "thorough": 100000}
TECHNIQUE = ("runtime monitoring: definite-assignment monitor over the text of every program the "
             "real compiler emits for seeded generated specs (all modes) + NameError observer on "
             "instrumented executions")


def classify(spec, problems):
    """Every problem must be explained by a known finding, else None."""
    found = []
    for p in problems:
        if p.get("kind") == "unbound-read":
            k = kf.name_kf(spec, p["name"])
        elif p.get("kind") == "exec-error" and p.get("etype") in ("NameError", "UnboundLocalError"):
            k = kf.name_kf(spec, kf.name_error_name(p.get("error")))
        elif p.get("kind") == "syntax-error":
            k = kf.kf12(spec, [p])
        else:
            k = None
        if k is None:
            return None
        found.append(k)
    return sorted(found)[0] if found else None


def check_text(st, spec, mode, text):
    probs, stats = scope.analyse(text, scope.supplied_names(spec, mode))
    st.bump("monitor", "texts-analysed")
    st.bump("monitor", "reads-checked", stats.get("reads", 0))
    st.bump("monitor", "stmts", stats.get("stmts", 0))
    st.bump("monitor", "loops", stats.get("loops", 0))
    return probs


def run_one(st, cls, spec, mode, ext, rnd, execute=True):
    cs = C.make_case(spec, rnd, lo=1, hi=5, extents=ext, mode=mode)
    compiled = run.compile_yaml(spec.yaml(), mode)
    out = C.Outcome()
    out.compiled = compiled
    if not compiled.ok:
        out.status = "rejected" if compiled.rejected else "crash"
        out.message = "%s: %s" % (compiled.etype, compiled.error)
        st.account(ID, cs, out, classify, mode_key=mode)
        return
    st.bump("class_ok", cls + "/" + mode)
    probs = check_text(st, spec, mode, compiled.text)
    static_names = {p.get("name") for p in probs}
    if execute:
        o2 = C.evaluate(cs, monitors=(), compiled=compiled)
        out.ex = o2.ex
        out.status = "ok" if o2.status in ("ok", "exec-error") else o2.status
        if o2.status == "skipped":
            out.status = "ok"     # the text monitor still ran
            st.bump("monitor", "exec-skipped")
        out.nontrivial = True
        for p in o2.problems:
            if p.get("kind") == "exec-error" and p.get("etype") in ("NameError", "UnboundLocalError"):
                n = kf.name_error_name(p.get("error"))
                st.bump("monitor", "dynamic-name-errors")
                if n not in static_names:
                    # the static oracle was too lax: report the dynamic one
                    probs.append(p)
                    st.bump("monitor", "dynamic-only")
    else:
        out.status = "ok"
        out.nontrivial = True
    out.problems = probs
    st.account(ID, cs, out, classify, mode_key=mode)


def shard(tier, seed, shard, nshards):
    st = common.Stats()
    n = N[tier] // nshards
    if shard == 1:
        common.repo_suite_workload(st, ID, ("unbound-read", "syntax-error"))
    if shard == 0:
        for name, y, mode in corpus.repo_yaml_corpus(run.REPO):
            try:
                spec = spec_from_yaml(y)
            except (KeyError, TypeError, ValueError):
                st.bump("monitor", "repo-yaml-not-a-full-spec")
                continue
            spec.tags = ["repo-yaml"]
            for m in (["plain", "metrics"] if mode == "metrics" else ["plain"]):
                rnd = random.Random("%s-repo-%s" % (ID, name))
                for sname in symbolic_sizes(spec):
                    spec.syms.setdefault(sname, rnd.randint(1, 4))
                s2 = spec.clone()
                if m == "plain":
                    s2.extra = ""
                run_one(st, "repo", s2, m, None, rnd, execute=(m == "plain"))
    for i in range(n):
        if i % 40 == 39:
            # coordinate-style stamps on flattened ranks (KF-12 territory)
            from ..gen import einsum as GE, mapping as GM, spacetime as GS
            rnd = random.Random("%s-flatcoord-%d-%d-%d" % (ID, seed, shard, i))
            spec = None
            for _ in range(30):
                b, info = GE.gen_plain(rnd, products_only=True, allow_take=False, max_ranks=3)
                f = GM.add_flatten(rnd, b, info)
                if f is not None:
                    spec = GS.add_spacetime(rnd, f, all_stamped=True, flat_coord=True)
                    if spec is not None:
                        break
            if spec is not None:
                run_one(st, "flat-coord-stamp", spec, "plain", None, rnd)
            continue
        it = corpus.item(ID, seed, shard, i)
        if it is None:
            st.bump("status", "generator-gave-up")
            continue
        cls, spec, mode, ext, rnd = it
        run_one(st, cls, spec, mode, ext, rnd)
    return st.result()


def replay(v):
    cs = C.Case.from_json(v["case"])
    st = common.Stats()
    run_one(st, "replay", cs.spec, cs.mode, cs.extents, random.Random(0))
    return st.violations


def finalize(results, counters, tier, seed):
    inc = []
    mon = counters.get("monitor", {})
    if mon.get("texts-analysed", 0) < N[tier] // 4:
        inc.append("too few texts analysed: %r" % mon)
    if mon.get("reads-checked", 0) == 0:
        inc.append("definite-assignment monitor checked no reads")
    cov = {"rule": "every spec accepted from the shared corpus (classes: %s) plus the repository's "
                   "40 integration YAMLs in every applicable mode; distinct = distinct (spec, mode); "
                   "non-trivial = compiler accepted and the text was analysed" %
                   ", ".join(corpus.available_classes()),
           "classes_accepted": counters.get("class_ok", {})}
    return cov, ["supplied-name set computed from the spec alone: <Name>_<RankOrder> of tensors not "
                 "produced earlier, declared rank names, scalar operands, symbolic partition sizes, "
                 "HiFiber API names and Python builtins",
                 "loops may run zero times: nothing bound in a loop body is bound after it"], inc
