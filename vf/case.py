"""One case = one Spec + one set of inputs, pushed through the real compiler
and the reference model, with the standard oracles applied."""
import hashlib
import json
import random
import re

from . import run, dense, model
from .spec import Spec


def spec_key(spec, mode="plain", extra=""):
    blob = json.dumps(spec.to_json(), sort_keys=True) + mode + extra
    return hashlib.sha1(blob.encode()).hexdigest()[:16]


class Case:
    """Replayable description of a case."""

    def __init__(self, spec, extents, inputs, scalars, mode="plain", note=None):
        self.spec = spec
        self.extents = extents
        self.inputs = inputs
        self.scalars = scalars
        self.mode = mode
        self.note = note or {}

    def to_json(self):
        return {"spec": self.spec.to_json(), "yaml": self.spec.yaml(), "extents": self.extents,
                "inputs": {n: [[list(k), v] for k, v in sorted(d.items())]
                           for n, d in self.inputs.items()},
                "scalars": self.scalars, "mode": self.mode, "note": self.note}

    @staticmethod
    def from_json(j):
        inputs = {n: {tuple(k): v for k, v in items} for n, items in j["inputs"].items()}
        return Case(Spec.from_json(j["spec"]), j["extents"], inputs, j["scalars"],
                    j.get("mode", "plain"), j.get("note"))


def make_case(spec, rnd, lo=2, hi=6, density=None, extents=None, mode="plain"):
    if extents is None:
        extents = run.pick_extents(spec, rnd, lo, hi)
    if density is None:
        density = rnd.choice([0.3, 0.5, 0.7, 0.9, 1.0])
    scal = {s: rnd.randint(2, 5) for s in spec.scalars()}
    inputs = run.gen_inputs(spec, extents, rnd, density)
    return Case(spec, extents, inputs, scal, mode)


class Outcome:
    def __init__(self):
        self.status = None        # ok | rejected | crash | skipped | exec-error
        self.problems = []        # list of dicts {kind, ...}
        self.compiled = None
        self.ex = None
        self.nontrivial = False
        self.message = None

    def brief(self):
        return {"status": self.status, "message": self.message,
                "problems": self.problems[:3]}


def names_monitor(ex, spec, extents):
    """C07: names tell the truth; outputs in root coordinates; inputs
    untouched."""
    problems = []
    ns = ex.ns
    tensors = set(spec.decl)
    for var, val in list(ns.items()):
        if not isinstance(val, model.Tensor):
            continue
        m = re.match(r"^([A-Za-z][A-Za-z0-9]*)_([A-Za-z0-9]*?)(_flat)?$", var)
        if not m or m.group(1) not in tensors:
            continue
        if "".join(val.getRankIds()) != m.group(2):
            problems.append({"kind": "name-lies", "var": var, "rank_ids": val.getRankIds()})
    # outputs: declared/rank-order name, coordinates inside root extents
    for e in spec.exprs:
        name = e.out.name
        order = spec.order_of(name)
        var = name + "_" + "".join(order)
        t = ns.get(var)
        if isinstance(t, model.Tensor) and t.getRankIds() == list(order) and t.depthOK():
            try:
                d = t.toDict()
            except model.ModelUnsupported:
                continue
            for cs in d:
                for c, r in zip(cs, order):
                    if isinstance(c, tuple) or not isinstance(c, (int, float)) or \
                            c != int(c) or not (0 <= c < extents[r]):
                        problems.append({"kind": "output-coordinate-space", "tensor": name,
                                         "coord": cs, "rank": r, "extent": extents[r]})
                        break
                else:
                    continue
                break
    # inputs
    for name, t in ex.input_objs.items():
        if model.snapshot(t) != ex.input_snap[name]:
            problems.append({"kind": "input-modified", "tensor": name})
        order = spec.order_of(name)
        var = name + "_" + "".join(order)
        cur = ns.get(var)
        if not isinstance(cur, model.Tensor):
            problems.append({"kind": "input-name-lost", "var": var})
        elif cur is not t:
            try:
                if cur.getRankIds() != list(order) or cur.toDict() != t.toDict():
                    problems.append({"kind": "input-name-rebound-differently", "var": var})
            except model.ModelUnsupported:
                problems.append({"kind": "input-name-rebound-differently", "var": var})
    muts = ex.rec.of("input_mutation")
    if muts:
        problems.append({"kind": "input-mutation-event", "events": muts[:3]})
    return problems


def evaluate(case, monitors=("result", "names"), log_updates=False, compiled=None,
             expected=None, content_addressed=False):
    """Compile + execute + standard oracles."""
    out = Outcome()
    spec = case.spec
    c = compiled or run.compile_yaml(spec.yaml(), case.mode)
    out.compiled = c
    if not c.ok:
        out.status = "rejected" if c.rejected else "crash"
        out.message = "%s: %s" % (c.etype, c.error)
        return out
    ex = run.execute(c.text, spec, case.inputs, case.extents, case.scalars,
                     mode=case.mode, log_updates=log_updates,
                     content_addressed=content_addressed)
    out.ex = ex
    if not ex.ok:
        if ex.etype in ("ModelUnsupported", "RecursionError"):
            out.status = "skipped"
            out.message = ex.error
            return out
        out.status = "exec-error"
        out.message = ex.error
        out.problems.append({"kind": "exec-error", "etype": ex.etype, "error": ex.error,
                             "tb": ex.tb})
        return out
    out.status = "ok"
    if ex.rec.counts.get("intersection_duplicate_operand"):
        # a tensor may appear once per term, so no legal program intersects a fiber with itself
        out.problems.append({"kind": "intersection-duplicate-operand",
                             "times": ex.rec.counts["intersection_duplicate_operand"]})
    if "result" in monitors:
        try:
            out.problems.extend(run.result_check(ex, spec, case.inputs, case.scalars,
                                                 case.extents, expected))
        except model.ModelUnsupported as e:
            out.status = "skipped"
            out.message = str(e)
            return out
    if "names" in monitors:
        out.problems.extend(names_monitor(ex, spec, case.extents))
    out.nontrivial = bool(ex.loops) and ex.all_loops_entered() and ex.update_count > 0
    return out


def violation(pid, case, problems, summary, known_finding=None, extra=None):
    v = {"property": pid, "summary": summary, "problems": problems[:6],
         "case": case.to_json(), "known_finding": known_finding}
    if extra:
        v.update(extra)
    return v
