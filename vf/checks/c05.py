"""C05 - cascaded Einsums compose and are compiled independently of their
predecessors.  Oracles: (a) whole-program run == chained dense evaluation;
(b) the block emitted for Einsum i (captured by a wrapper on
HiFiber.__translate) == the text of Einsum i compiled alone, temporaries
renumbered; (c) invariant hook at the quiescent point between Einsums: every
shared ir.Tensor equals a fresh one and the Program is unconfigured."""
import random
import re

from .. import case as C, run, hooks, kf
from ..gen import cascade as G
from . import common

ID = "C05"
NEEDS_MODEL = True
LEVEL = "exploration"
N = {"quick": 800, "thorough": 16000}


def renumber(text):
    seen = {}

    def sub(m):
        k = m.group(0)
        if k not in seen:
            seen[k] = "tmp%d" % len(seen)
        return seen[k]
    return re.sub(r"\btmp\d+\b", sub, text)


def classify(spec, problems):
    return kf.classify_plain(spec, problems)


def run_one(st, spec, rnd):
    cs = C.make_case(spec, rnd, lo=2, hi=6, extents=getattr(spec, "_extents", None))
    with hooks.capture_translate() as tl:
        compiled = run.compile_yaml(spec.yaml(), "plain")
    out = C.evaluate(cs, compiled=compiled)
    if compiled.ok:
        if len(tl.blocks) != len(spec.exprs):
            st.inconclusive.append("translate wrapper saw %d of %d Einsums" % (
                len(tl.blocks), len(spec.exprs)))
        # (c) state invariant
        for i, (b, a) in enumerate(zip(tl.state_before, tl.state_after)):
            st.bump("monitor", "state-points", 2)
            if b:
                out.problems.append({"kind": "stale-state-before-einsum", "einsum": i, "state": b[:3]})
            if a:
                out.problems.append({"kind": "stale-state-after-einsum", "einsum": i, "state": a[:3]})
        for i in range(1, len(tl.tmp_before)):
            if tl.tmp_before[i] < tl.tmp_before[i - 1]:
                out.problems.append({"kind": "tmp-counter-went-backwards", "einsum": i})
        # (b) independence of the emitted block
        for i, blk in enumerate(tl.blocks):
            alone = run.compile_yaml(G.standalone(spec, i).yaml(), "plain")
            if not alone.ok:
                st.bump("monitor", "standalone-" + ("rejected" if alone.rejected else "crash"))
                out.problems.append({"kind": "standalone-compile-fails", "einsum": i,
                                     "error": alone.error})
                continue
            st.bump("monitor", "blocks-compared")
            if renumber(blk) != renumber(alone.text):
                a, b = renumber(blk).splitlines(), renumber(alone.text).splitlines()
                d = next((j for j in range(min(len(a), len(b))) if a[j] != b[j]), min(len(a), len(b)))
                out.problems.append({"kind": "block-differs-from-standalone", "einsum": i,
                                     "line": d, "in_cascade": a[d:d + 2], "alone": b[d:d + 2]})
        # whole text is the concatenation of the blocks
        if "\n".join(b for b in tl.blocks) != compiled.text:
            out.problems.append({"kind": "text-is-not-concatenation-of-blocks"})
    st.account(ID, cs, out, classify)


def shard(tier, seed, shard, nshards):
    st = common.Stats()
    n = N[tier] // nshards
    for i in range(n):
        rnd = random.Random("%s-%d-%d-%d" % (ID, seed, shard, i))
        spec = G.gen_reread(rnd) if i % 6 == 5 else (G.gen_rewrite(rnd) if i % 12 == 4 else (
            G.gen_affine_cascade(rnd) if i % 12 == 10 else None))
        if spec is None:
            spec = G.gen_cascade(rnd)
        if i % 12 in (1, 7):
            # a spacetime mapping on SOME Einsums of the cascade only (mostly an early one): the
            # others must be emitted exactly as they are alone, without any display code
            from ..gen import spacetime as GS
            outs = list(dict.fromkeys(e.out.name for e in spec.exprs))
            if len(outs) > 1:
                only = [outs[0]] if rnd.random() < 0.6 else rnd.sample(outs, rnd.randint(1, len(outs) - 1))
                s2 = GS.add_spacetime(rnd, spec, only=only, slip=False)
                if s2 is not None:
                    s2.tags = list(s2.tags) + ["spacetime-on-some-einsums"]
                    if hasattr(spec, "_extents"):
                        s2._extents = spec._extents
                    spec = s2
        run_one(st, spec, rnd)
    st.counters["hook_calls"] = dict(hooks.CALLS)
    return st.result()


def replay(v):
    cs = C.Case.from_json(v["case"])
    st = common.Stats()
    run_one(st, cs.spec, random.Random(0))
    # re-evaluate on the recorded inputs too
    st.account(ID, cs, C.evaluate(cs), classify)
    return st.violations


def finalize(results, counters, tier, seed):
    inc = []
    if counters.get("status", {}).get("ok", 0) < N[tier] // 4:
        inc.append("too few executed cascades: %r" % counters.get("status"))
    if counters.get("hook_calls", {}).get("translate", 0) == 0:
        inc.append("translate wrapper never called")
    if counters.get("monitor", {}).get("blocks-compared", 0) == 0:
        inc.append("no block was ever compared with its stand-alone compilation")
    miss = [s for s in ("cascade2", "cascade3", "cascade4", "mapped-predecessor", "map-shape",
                        "map-occupancy", "map-flatten", "intermediate-reordered",
                        "spacetime-on-some-einsums")
            if counters.get("strata_ok", {}).get(s, 0) == 0]
    if miss:
        inc.append("strata never executed: %r" % miss)
    cov = {"rule": "cascades of 2-4 product/sum Einsums (chains, diamonds, intermediates consumed "
                   "twice, rank-0 intermediates, reordered intermediates) each with its own mapping "
                   "(none / loop order / shape / occupancy / flatten); every Einsum's block compared "
                   "with its stand-alone compilation; reset invariant checked before and after every "
                   "Einsum; non-trivial = accepted, all loops iterated, >=1 update"}
    return cov, common.MODEL_ASSUMPTIONS, inc
