"""C14 - execution time is the bottleneck-per-block roll-up of component times.

Events: the `metrics` dictionary the emitted dump computes when the program
runs on the reference model with stand-ins that return DISTINCT PRIMES for
every count (logged).  Oracle (vf/monitors/timemodel.py): (i) every
metrics[e][c]["time"] == (sum of that component's counts) / (clock frequency or
bandwidth x instance count of the level that holds c, N+1 for NAME[0..N]),
the architecture being read from the YAML by an independent reader;
(ii) metrics["time"] == sum over blocks of max over components of the
component's time summed over the block's Einsums, recomputed from ALL time
entries present in the dictionary."""
import random

from .. import case as C, run
from ..monitors import timemodel
from . import common, mcommon

ID = "C14"
NEEDS_MODEL = True
LEVEL = "exploration"
N = {"quick": 800, "thorough": 24000}


def classify(spec, problems):
    from .. import kf
    return mcommon.kf6(spec, problems) or kf.classify_name_error(spec, problems) or \
        kf13(spec, problems)


def kf13(spec, problems):
    """KF-13: Hardware keeps ONE component per NAME across all configurations (the last one
    built wins).  Explains a component time only if a later configuration declares a
    component of the same name and the observed time is exactly what that namesake's instance
    count / bandwidth would give."""
    arch = timemodel.arch_table(spec.yaml())
    facts = {f["einsum"]: f for f in timemodel.einsum_facts(spec)}
    names = list(arch)
    if len(names) < 2:
        return None
    seen = False
    for p in problems:
        if p.get("kind") == "total-time-is-not-the-rollup":
            continue            # judged from the time entries present, cannot be wrong alone
        if p.get("kind") != "component-time":
            return None
        c, e = p["component"], p["einsum"]
        mine = facts[e]["config"]
        last = [n for n in names if c in arch[n]["components"]][-1]
        if last == mine:
            return None
        other = arch[last]["components"][c]
        mem = other["class"] in ("dram", "buffet", "cache")
        rate = other["bandwidth"] if mem else arch[mine]["freq"]
        want = p["count"] / (rate * other["inst"])
        if abs(p["got"] - want) > 1e-12 * max(1.0, abs(want)):
            return None
        seen = True
    return "KF-13" if seen else None


def run_one(st, spec, cs):
    compiled = run.compile_yaml(spec.yaml(), "metrics")
    if not compiled.ok and mcommon.refusal(compiled):
        compiled.etype = "ValueError"
    out = C.evaluate(cs, monitors=(), compiled=compiled)
    if out.status == "ok":
        m = out.ex.ns.get("metrics")
        if not isinstance(m, dict):
            out.problems.append({"kind": "no-metrics-dictionary"})
        else:
            facts = timemodel.einsum_facts(spec)
            probs, stats = timemodel.check_times(m, spec, facts)
            for k, v in stats.items():
                st.bump("monitor", k, v)
            st.bump("monitor", "dumps-checked")
            st.bump("monitor", "primes-issued", len(out.ex.metrics_env.dump_values) +
                    out.ex.rec.counts.get("numIters", 0) + out.ex.rec.counts.get("numSwaps", 0) +
                    out.ex.rec.counts.get("getNumIntersects", 0))
            if len(m.get("blocks", [])) >= 2:
                st.bump("monitor", "multi-block-dumps")
            out.problems.extend(probs)
    st.account(ID, cs, out, classify, mode_key="metrics")


def shard(tier, seed, shard, nshards):
    st = common.Stats()
    if shard == 0:
        for s in mcommon.accel_specs():
            rnd = random.Random("%s-accel-%d" % (ID, seed))
            run_one(st, s, mcommon.make_accel_case(s.clone(), rnd))
    for i in range(N[tier] // nshards):
        spec, rnd = mcommon.gen_item(ID, seed, shard, i, n_einsums=rnd_n(seed, shard, i))
        run_one(st, spec, C.make_case(spec, rnd, lo=2, hi=4, mode="metrics",
                                      extents=getattr(spec, "_extents", None)))
    return st.result()


def rnd_n(seed, shard, i):
    # bias towards cascades: several blocks and several components per block
    return [1, 2, 3, 3, 2][i % 5]


def replay(v):
    cs = C.Case.from_json(v["case"])
    st = common.Stats()
    run_one(st, cs.spec, cs)
    return st.violations


def finalize(results, counters, tier, seed):
    inc = []
    mon = counters.get("monitor", {})
    if mon.get("dumps-checked", 0) < N[tier] // 4:
        inc.append("too few dumps checked: %r" % counters.get("status"))
    if mon.get("times_checked", 0) == 0:
        inc.append("no component time was ever checked")
    if mon.get("multi-block-dumps", 0) == 0:
        inc.append("no dump with >= 2 blocks")
    miss = [t for t in ("m-multi-rank-intersector", "m-sequencer", "m-three-level", "m-configs2")
            if counters.get("strata_compiled", {}).get(t, 0) == 0]
    if miss:
        inc.append("strata never executed: %r" % miss)
    cov = {"rule": "C11's corpus biased to cascades (2-3 Einsums, 1-2 configurations); the dump "
                   "runs with prime-valued stand-ins; distinct = distinct spec; non-trivial = "
                   "accepted, all loops iterated, >=1 update"}
    return cov, ["instance count of a component = N+1 of the level NAME[0..N] that holds it (not "
                 "multiplied along the tree path) - the convention the repository's tests pin",
                 "memory traffic time counts read bits of every tensor and write bits of the "
                 "Einsum's output only, as the dump does"] + common.MODEL_ASSUMPTIONS[:1], inc
