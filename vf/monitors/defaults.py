"""C19: the canonical default mapping, computed from the statement alone
(never from the compiler)."""
import re


def default_rank_order(spec):
    return {n: list(rs) for n, rs in spec.decl.items()}


def levels(spec, out, rank):
    """Levels of `rank` for Einsum `out`, outermost first ([rank] if the rank
    is not split).  Only split stacks (shape / occupancy / follow)."""
    parts = (spec.partitioning or {}).get(out) or {}
    ds = parts.get(rank)
    if not ds:
        return [rank]
    if ds[0].startswith("follow"):
        leader = re.match(r"follow\((\w+)\)", ds[0]).group(1)
        n = len(parts[leader])
    else:
        n = len(ds)
    return [rank + str(j) for j in range(n, -1, -1)]


def root_order(e):
    out_written = [v.upper() for i in e.out.idx for _, v in i]
    order = list(out_written)
    for t in e.terms:
        for f in t.tensors():
            for ix in f.idx:
                for _, v in ix:
                    r = v.upper()
                    if r not in order:
                        order.append(r)
    return order


def flatten_groups(spec, out):
    parts = (spec.partitioning or {}).get(out) or {}
    return [[x.strip() for x in k.strip("()").split(",")] for k in parts if k.startswith("(")]


def flatten_in_place(spec, e):
    """True when every flatten() of this Einsum names root ranks that are adjacent, and in the
    tuple's order, in the root default order: the one case in which "each partitioned rank
    replaced in place" says where the flattened rank goes."""
    order = root_order(e)
    for g in flatten_groups(spec, e.out.name):
        if any(r not in order for r in g):
            return False
        i = order.index(g[0])
        if order[i:i + len(g)] != g:
            return False
    return True


def default_loop_order(spec, e):
    order = root_order(e)
    for g in flatten_groups(spec, e.out.name):
        if all(r in order for r in g):
            i = order.index(g[0])
            if order[i:i + len(g)] == g:
                order[i:i + len(g)] = ["".join(g)]
    lo = []
    for r in order:
        lo.extend(levels(spec, e.out.name, r))
    return lo


def take_before_product(e):
    """The compiler takes the first *product* term as reference; sums that put
    a take() term before a product term are outside the statement we check."""
    seen_take = False
    for t in e.terms:
        if t.kind == "take":
            seen_take = True
        elif seen_take:
            return True
    return False


def has_flatten(spec):
    """A flatten() the statement does not place (see flatten_in_place)."""
    if all(flatten_in_place(spec, e) for e in spec.exprs):
        return False
    for ps in (spec.partitioning or {}).values():
        for k, ds in (ps or {}).items():
            if "(" in k or any(d.startswith("flatten") for d in ds):
                return True
    return False
