"""Reference HiFiber model.

A small, independent, executable model of the part of the fibertree API that
the TeAAL compiler can emit.  It does not import anything from /repo.

Conventions
-----------
* A Fiber holds sorted coordinates and parallel payloads; a payload is a
  Payload (leaf), another Fiber, or - for the results of co-iteration - a
  tuple.  `mk` creates a fresh default payload for an absent coordinate.
* Objects reachable from a user-supplied input carry `owner=<tensor name>`;
  every mutating operation on an owned object is reported to the recorder
  (C07: inputs are never modified).
* `REC`, when set, receives `REC.ev(kind, **data)` calls for the operations
  monitors care about.
"""
import bisect
import math

REC = None


class ModelUnsupported(Exception):
    """The emitted program used API behaviour this model does not define."""


class ModelError(Exception):
    """The emitted program misused the API in a way fibertree itself rejects
    (wrong arity, not a permutation, depth out of range, descending below the
    leaves).  This is a failure of the program, not of the model."""


def _ev(_kind, **kw):
    if REC is not None:
        REC.ev(_kind, **kw)


def _val(x):
    return x.value if isinstance(x, Payload) else x


class Payload:
    __slots__ = ("value", "owner")

    def __init__(self, value=0, owner=None):
        self.value = _val(value)
        self.owner = owner

    # in-place
    def __iadd__(self, o):
        if self.owner is not None:
            _ev("input_mutation", op="+=", owner=self.owner)
        self.value = self.value + _val(o)
        return self

    def __ilshift__(self, o):
        if self.owner is not None:
            _ev("input_mutation", op="<<=", owner=self.owner)
        self.value = _val(o)
        return self

    def __add__(self, o): return Payload(self.value + _val(o))
    def __radd__(self, o): return Payload(_val(o) + self.value)
    def __mul__(self, o): return Payload(self.value * _val(o))
    def __rmul__(self, o): return Payload(_val(o) * self.value)
    def __sub__(self, o): return Payload(self.value - _val(o))
    def __rsub__(self, o): return Payload(_val(o) - self.value)
    def __eq__(self, o): return self.value == _val(o)
    def __ne__(self, o): return self.value != _val(o)
    def __hash__(self): return hash(self.value)
    def __bool__(self): return bool(self.value)
    def __repr__(self): return "P(%r)" % (self.value,)


def _leaf_default():
    return Payload(0)


def _norm(c):
    """Normalise a coordinate: integral floats become ints (projections by
    1/2 * k produce floats)."""
    if isinstance(c, float) and c == int(c):
        return int(c)
    return c


class Fiber:
    def __init__(self, coords=None, payloads=None, mk=_leaf_default, owner=None):
        self.coords = list(coords) if coords is not None else []
        self.payloads = list(payloads) if payloads is not None else []
        self.mk = mk
        self.owner = owner

    # -- construction helpers
    @staticmethod
    def empty(depth_below):
        """An empty fiber with `depth_below` ranks underneath it."""
        if depth_below <= 0:
            return Fiber(mk=_leaf_default)
        return Fiber(mk=lambda d=depth_below: Fiber.empty(d - 1))

    @staticmethod
    def fromLazy(it):
        if isinstance(it, Fiber):
            return Fiber(it.coords, it.payloads, it.mk)
        cs, ps = [], []
        for c, p in it:
            cs.append(c)
            ps.append(p)
        return Fiber(cs, ps)

    @staticmethod
    def intersection(*fibers, style=None, **kw):
        _ev("intersection", n=len(fibers), style=style)
        if len({id(f) for f in fibers}) != len(fibers):
            _ev("intersection_duplicate_operand", n=len(fibers))
        res = fibers[-1]
        for f in reversed(fibers[:-1]):
            res = f & res
        return res

    # -- basic protocol
    def __iter__(self):
        return iter(list(zip(self.coords, self.payloads)))

    def __len__(self):
        return len(self.coords)

    def getCoords(self):
        return list(self.coords)

    def getPayloads(self):
        return list(self.payloads)

    def _find(self, c):
        try:
            i = bisect.bisect_left(self.coords, c)
        except TypeError:
            # mixed tuple / scalar coordinates: linear search
            for i, x in enumerate(self.coords):
                if x == c:
                    return i, True
            return len(self.coords), False
        if i < len(self.coords) and self.coords[i] == c:
            return i, True
        return i, False

    def getPayload(self, *coords, trace=None, **kw):
        f = self
        for n, c in enumerate(coords):
            if not isinstance(f, Fiber):
                raise ModelError("getPayload below the leaves")
            i, ok = f._find(c)
            if not ok:
                p = f.mk()
                for _ in coords[n + 1:]:
                    if not isinstance(p, Fiber):
                        raise ModelError("getPayload below the leaves")
                    p = p.mk()
                return p
            f = f.payloads[i]
        return f

    def getPayloadRef(self, *coords, trace=None, **kw):
        f = self
        for c in coords:
            if not isinstance(f, Fiber):
                raise ModelError("getPayloadRef below the leaves")
            i, ok = f._find(c)
            if not ok:
                if f.owner is not None:
                    _ev("input_mutation", op="getPayloadRef-insert", owner=f.owner)
                f.coords.insert(i, c)
                f.payloads.insert(i, f.mk())
            f = f.payloads[i]
        return f

    def iterRangeShapeRef(self, start, end, step=1, **kw):
        out_c, out_p = [], []
        c = start
        if step <= 0:
            raise ModelUnsupported("iterRangeShapeRef with step <= 0")
        while c < end:
            out_c.append(c)
            out_p.append(self.getPayloadRef(c))
            c += step
        return Fiber(out_c, out_p, self.mk)

    # -- co-iteration
    def __and__(self, other):
        cs, ps = [], []
        ob = dict(zip(other.coords, other.payloads))
        for c, p in zip(self.coords, self.payloads):
            if c in ob:
                cs.append(c)
                ps.append((p, ob[c]))
        amk, bmk = self.mk, other.mk
        return Fiber(cs, ps, lambda: (amk(), bmk()))

    def __or__(self, other):
        a = dict(zip(self.coords, self.payloads))
        b = dict(zip(other.coords, other.payloads))
        cs = sorted(set(a) | set(b))
        ps = []
        amk, bmk = self.mk, other.mk
        for c in cs:
            if c in a and c in b:
                ps.append(("AB", a[c], b[c]))
            elif c in a:
                ps.append(("A", a[c], bmk()))
            else:
                ps.append(("B", amk(), b[c]))
        return Fiber(cs, ps, lambda: ("", amk(), bmk()))

    def __lshift__(self, other):
        cs, ps = [], []
        for c, p in zip(other.coords, other.payloads):
            cs.append(c)
            ps.append((self.getPayloadRef(c), p))
        zmk, omk = self.mk, other.mk
        return Fiber(cs, ps, lambda: (zmk(), omk()))

    # -- coordinate transforms
    def project(self, trans_fn, interval=None, **kw):
        items = []
        for c, p in zip(self.coords, self.payloads):
            nc = _norm(trans_fn(c))
            if interval is not None and not (interval[0] <= nc < interval[1]):
                continue
            items.append((nc, p))
        items.sort(key=lambda t: t[0])
        for i in range(1, len(items)):
            if items[i][0] == items[i - 1][0]:
                raise ModelUnsupported("project() produced duplicate coordinates")
        return Fiber([c for c, _ in items], [p for _, p in items], self.mk)

    def prune(self, trans_fn, **kw):
        cs, ps = [], []
        for i, (c, p) in enumerate(zip(self.coords, self.payloads)):
            r = trans_fn(i, c, p)
            if r is None:
                break
            if r:
                cs.append(c)
                ps.append(p)
        return Fiber(cs, ps, self.mk)

    def trace(self, *a, **k):
        _ev("fiber_trace", args=a, kwargs=k)

    def __repr__(self):
        return "F(%r)" % (list(zip(self.coords, self.payloads)),)


# ---------------------------------------------------------------- tensor

def _elements(node, nranks):
    """yield (coords tuple, leaf payload) for a tree of nranks levels"""
    if nranks == 0:
        yield (), node
        return
    for c, p in zip(node.coords, node.payloads):
        for cs, leaf in _elements(p, nranks - 1):
            yield (c,) + cs, leaf


def _merge(ps):
    """Merge duplicate payloads (leaves add, fibers merge recursively)."""
    if all(isinstance(p, Payload) for p in ps):
        return Payload(sum(p.value for p in ps))
    if not all(isinstance(p, Fiber) for p in ps):
        raise ModelUnsupported("cannot merge mixed payloads")
    groups = {}
    for f in ps:
        for c, p in zip(f.coords, f.payloads):
            groups.setdefault(c, []).append(p)
    out = Fiber(mk=ps[0].mk)
    for c in sorted(groups):
        g = groups[c]
        out.coords.append(c)
        out.payloads.append(g[0] if len(g) == 1 else _merge(g))
    return out


def _build(elems, nranks):
    """build a tree from [(coords, leaf)], merging duplicates"""
    if nranks == 0:
        leaves = [l for _, l in elems]
        return leaves[0] if len(leaves) == 1 else _merge(leaves)
    f = Fiber.empty(nranks - 1)
    groups = {}
    for cs, leaf in elems:
        groups.setdefault(cs[0], []).append((cs[1:], leaf))
    for c in sorted(groups):
        f.coords.append(c)
        f.payloads.append(_build(groups[c], nranks - 1))
    return f


class Tensor:
    def __init__(self, rank_ids=None, name="", shape=None, root=None, **kw):
        self.rank_ids = list(rank_ids or [])
        self.name = name
        self.shape = list(shape) if shape is not None else None
        self.owner = None
        n = len(self.rank_ids)
        if shape is not None and len(shape) != n:
            raise ModelError("shape arity %r vs rank_ids %r" % (shape, rank_ids))
        if root is not None:
            self.root = root
        elif n == 0:
            self.root = Payload(0)
        else:
            self.root = Fiber.empty(n - 1)
        _ev("tensor_new", name=name, rank_ids=list(self.rank_ids), shape=self.shape,
            from_root=root is not None)

    @staticmethod
    def fromFiber(rank_ids=None, fiber=None, name="", shape=None, **kw):
        if not isinstance(fiber, Fiber):
            raise ModelError("fromFiber on a non-fiber")
        return Tensor(rank_ids=rank_ids, name=name, shape=shape, root=fiber)

    @staticmethod
    def fromDict(rank_ids, d, name=""):
        """Harness helper: {coords tuple: int} -> Tensor (no stored zeros)."""
        elems = [(tuple(k) if isinstance(k, tuple) else (k,), Payload(v))
                 for k, v in d.items()]
        if not rank_ids:
            t = Tensor(rank_ids=[], name=name)
            if elems:
                t.root = elems[0][1]
            return t
        return Tensor(rank_ids, name, root=_build(elems, len(rank_ids)))

    def toDict(self):
        """{coords: value} with zeros dropped and integral floats normalised."""
        out = {}
        for cs, leaf in _elements(self.root, len(self.rank_ids)):
            v = _val(leaf)
            if isinstance(v, (Fiber, tuple)):
                raise ModelUnsupported("non-leaf at leaf depth")
            if v != 0:
                k = tuple(_norm(c) for c in cs)
                out[k] = out.get(k, 0) + v
        return out

    def depthOK(self):
        """Structural sanity: exactly len(rank_ids) fiber levels above leaves."""
        def rec(node, n):
            if n == 0:
                return isinstance(node, Payload)
            if not isinstance(node, Fiber):
                return False
            return all(rec(p, n - 1) for p in node.payloads)
        return rec(self.root, len(self.rank_ids))

    def getRoot(self):
        return self.root

    def getRankIds(self):
        return list(self.rank_ids)

    def getName(self):
        return self.name

    def setRankIds(self, rank_ids):
        if len(rank_ids) != len(self.rank_ids):
            raise ModelError("setRankIds arity %r on %r" % (rank_ids, self.rank_ids))
        if self.owner is not None:
            _ev("input_mutation", op="setRankIds", owner=self.owner)
        _ev("set_rank_ids", name=self.name, old=list(self.rank_ids), new=list(rank_ids))
        self.rank_ids = list(rank_ids)
        return self

    def swizzleRanks(self, rank_ids):
        if sorted(rank_ids) != sorted(self.rank_ids):
            raise ModelError("swizzleRanks %r on %r" % (rank_ids, self.rank_ids))
        perm = [self.rank_ids.index(r) for r in rank_ids]
        n = len(rank_ids)
        if n == 0:
            return Tensor([], self.name, root=self.root)
        elems = [(tuple(cs[i] for i in perm), leaf)
                 for cs, leaf in _elements(self.root, n)]
        return Tensor(rank_ids, self.name, root=_build(elems, n))

    # rebuild the fibers found at `depth` with fn(fiber)->payload
    def _map_depth(self, node, depth, fn, below):
        if depth == 0:
            return fn(node)
        f = Fiber.empty(below - 1)
        f.coords = list(node.coords)
        f.payloads = [self._map_depth(p, depth - 1, fn, below - 1) for p in node.payloads]
        return f

    def _check_depth(self, depth, span=1):
        if depth < 0 or depth + span > len(self.rank_ids):
            raise ModelError("depth %d (+%d) on %r" % (depth, span, self.rank_ids))

    def _split(self, depth, groups_of):
        self._check_depth(depth)
        n = len(self.rank_ids)
        below = n - depth - 1

        def fn(fiber):
            groups = groups_of(fiber)  # [(upper_coord, [(c, p)...])]
            up = Fiber.empty(below + 1)
            for uc, items in groups:
                lo = Fiber.empty(below)
                lo.coords = [c for c, _ in items]
                lo.payloads = [p for _, p in items]
                up.coords.append(uc)
                up.payloads.append(lo)
            return up
        r = self.rank_ids[depth]
        ids = self.rank_ids[:depth] + [r + ".1", r + ".0"] + self.rank_ids[depth + 1:]
        return Tensor(ids, self.name, root=self._map_depth(self.root, depth, fn, len(ids)))

    def splitUniform(self, step, depth=0, pre_halo=0, post_halo=0, **kw):
        _ev("split", kind="uniform", step=step, depth=depth, pre=pre_halo, post=post_halo)
        if not (isinstance(step, (int, float)) and step > 0):
            raise ModelUnsupported("splitUniform step %r" % (step,))
        if pre_halo < 0 or post_halo < 0:
            raise ModelUnsupported("negative halo")

        def groups_of(fiber):
            groups = {}
            for c, p in zip(fiber.coords, fiber.payloads):
                g0 = int(c // step)
                lo = max(0, g0 - int(math.ceil(post_halo / step)) - 1)
                hi = g0 + int(math.ceil(pre_halo / step)) + 1
                for g in range(lo, hi + 1):
                    if g * step - pre_halo <= c < (g + 1) * step + post_halo:
                        groups.setdefault(g * step, []).append((c, p))
            return [(uc, groups[uc]) for uc in sorted(groups)]
        return self._split(depth, groups_of)

    def _split_bounds(self, depth, bounds_of):
        def groups_of(fiber):
            bounds = bounds_of(fiber)
            out = []
            for i, b in enumerate(bounds):
                e = bounds[i + 1] if i + 1 < len(bounds) else None
                items = [(c, p) for c, p in zip(fiber.coords, fiber.payloads)
                         if c >= b and (e is None or c < e)]
                if items:
                    out.append((b, items))
            return out
        return self._split(depth, groups_of)

    def splitEqual(self, size, depth=0, pre_halo=0, post_halo=0, **kw):
        _ev("split", kind="equal", step=size, depth=depth, pre=pre_halo, post=post_halo)
        if pre_halo or post_halo:
            raise ModelUnsupported("halo on splitEqual")
        if not (isinstance(size, int) and size > 0):
            raise ModelUnsupported("splitEqual size %r" % (size,))
        return self._split_bounds(depth, lambda f: f.coords[::size])

    def splitNonUniform(self, splits, depth=0, pre_halo=0, post_halo=0, **kw):
        _ev("split", kind="nonuniform", depth=depth, pre=pre_halo, post=post_halo)
        if pre_halo or post_halo:
            raise ModelUnsupported("halo on splitNonUniform")
        if isinstance(splits, Fiber):
            splits = splits.getCoords()
        splits = list(splits)
        if splits != sorted(splits):
            raise ModelUnsupported("unsorted split points")
        return self._split_bounds(depth, lambda f: splits)

    def _flatten(self, depth, levels, coord_style, merge):
        self._check_depth(depth, levels + 1)
        n = len(self.rank_ids)
        below = n - depth - levels - 1

        def fn(fiber):
            groups = {}
            order = []
            for cs, leaf in _elements(fiber, levels + 1):
                if coord_style == "tuple":
                    flat = []
                    for c in cs:
                        if isinstance(c, tuple):
                            flat.extend(c)
                        else:
                            flat.append(c)
                    key = tuple(flat)
                elif coord_style == "absolute":
                    key = cs[-1]
                else:
                    raise ModelUnsupported("coord_style " + str(coord_style))
                if key not in groups:
                    groups[key] = []
                    order.append(key)
                groups[key].append(leaf)
            out = Fiber.empty(below)
            for c in sorted(groups):
                ps = groups[c]
                if len(ps) > 1 and not merge:
                    raise ModelUnsupported("flattenRanks produced duplicate coordinates")
                out.coords.append(c)
                out.payloads.append(ps[0] if len(ps) == 1 else _merge(ps))
            return out
        ids = self.rank_ids[:depth] + ["".join(self.rank_ids[depth:depth + levels + 1])] + \
            self.rank_ids[depth + levels + 1:]
        return Tensor(ids, self.name, root=self._map_depth(self.root, depth, fn, len(ids)))

    def flattenRanks(self, depth=0, levels=1, coord_style="tuple", **kw):
        _ev("flatten", depth=depth, levels=levels, style=coord_style)
        return self._flatten(depth, levels, coord_style, coord_style == "absolute")

    def mergeRanks(self, depth=0, levels=1, coord_style="absolute", **kw):
        _ev("merge", depth=depth, levels=levels, style=coord_style)
        return self._flatten(depth, levels, coord_style, True)

    def unflattenRanks(self, depth=0, levels=1, **kw):
        _ev("unflatten", depth=depth, levels=levels)
        self._check_depth(depth)
        n = len(self.rank_ids)
        below = n - depth - 1

        def fn(fiber):
            elems = []
            for c, p in zip(fiber.coords, fiber.payloads):
                if not (isinstance(c, tuple) and len(c) == levels + 1):
                    raise ModelError("unflattenRanks on coordinate %r" % (c,))
                elems.append((c, p))

            def build(es, k):
                if k == 0:
                    if len(es) != 1:
                        raise ModelUnsupported("duplicate tuple coordinate")
                    return es[0][1]
                f = Fiber.empty(below + k - 1)
                groups = {}
                for cs, p in es:
                    groups.setdefault(cs[0], []).append((cs[1:], p))
                for c in sorted(groups):
                    f.coords.append(c)
                    f.payloads.append(build(groups[c], k - 1))
                return f
            return build(elems, levels + 1)
        r = self.rank_ids[depth]
        ids = self.rank_ids[:depth] + [r + "." + str(i) for i in range(levels + 1)] + \
            self.rank_ids[depth + 1:]
        return Tensor(ids, self.name, root=self._map_depth(self.root, depth, fn, len(ids)))

    def __repr__(self):
        try:
            d = self.toDict()
        except Exception as e:  # pragma: no cover
            d = "<%s>" % e
        return "T(%s,%r,%r)" % (self.name, self.rank_ids, d)


# ---------------------------------------------------------------- helpers

def tag_owner(t, owner):
    """Mark every object reachable from tensor t as belonging to an input."""
    t.owner = owner

    def rec(node):
        if isinstance(node, Fiber):
            node.owner = owner
            for p in node.payloads:
                rec(p)
        elif isinstance(node, Payload):
            node.owner = owner
    rec(t.root)


def snapshot(t):
    """Deep, comparable snapshot of a tensor: (rank ids, structure)."""
    def rec(node):
        if isinstance(node, Fiber):
            return tuple((c, rec(p)) for c, p in zip(node.coords, node.payloads))
        if isinstance(node, Payload):
            return ("P", node.value)
        return ("?", repr(node))
    return (tuple(t.rank_ids), rec(t.root))
