"""Verify the sub-agents' seeded changes in scratch worktrees (never in /repo):
patch applies, test-suite passes with it, demo fails with it and passes without."""
import json
import os
import subprocess
import sys
from concurrent.futures import ThreadPoolExecutor

SEED = "/tmp/seed"
PY = "/venv/bin/python"


def sh(cmd, cwd=None, env=None, timeout=900):
    r = subprocess.run(cmd, shell=True, cwd=cwd, env=env, capture_output=True, text=True,
                       timeout=timeout)
    return r.returncode, (r.stdout + r.stderr)[-1500:]


def verify(pid, n, slot, seed_dir=None):
    d = os.path.join(seed_dir or SEED, pid)
    patch = os.path.join(d, "patch%d.diff" % n)
    demo = os.path.join(d, "demo%d.py" % n)
    if not (os.path.exists(patch) and os.path.exists(demo)):
        return None
    wt = "/tmp/wtv/%d" % slot
    res = {"property": pid, "n": n}
    sh("git -C %s checkout -q -- . && git -C %s clean -fdq" % (wt, wt))
    env = dict(os.environ, PYTHONPATH=wt, PYTHONHASHSEED="0", PYTHONDONTWRITEBYTECODE="1")
    rc, out = sh("%s %s" % (PY, demo), cwd=wt, env=env)
    res["demo_clean_rc"] = rc
    res["demo_clean_tail"] = out[-300:]
    rc, out = sh("git -C %s apply %s" % (wt, patch))
    res["applies"] = rc == 0
    if rc != 0:
        res["apply_err"] = out[-300:]
        return res
    rc, out = sh("%s -m pytest -q -p no:cacheprovider -x" % PY, cwd=wt, env=env)
    res["tests_rc"] = rc
    res["tests_tail"] = out.strip().splitlines()[-1] if out.strip() else ""
    rc, out = sh("%s %s" % (PY, demo), cwd=wt, env=env)
    res["demo_patched_rc"] = rc
    res["demo_patched_tail"] = out[-400:]
    sh("git -C %s checkout -q -- . && git -C %s clean -fdq" % (wt, wt))
    res["valid"] = res["applies"] and res["tests_rc"] == 0 and res["demo_clean_rc"] == 0 and \
        res["demo_patched_rc"] != 0
    return res


def main():
    jobs = [("C%02d" % i, n) for i in range(1, 20) for n in (1, 2)]
    nslots = 8
    sh("mkdir -p /tmp/wtv")
    for s in range(nslots):
        if not os.path.isdir("/tmp/wtv/%d" % s):
            sh("git -C /repo worktree add -q --detach /tmp/wtv/%d HEAD" % s)
        else:
            sh("git -C /tmp/wtv/%d checkout -q --detach %s" % (s, sh("git -C /repo rev-parse HEAD")[1].strip()))
    results = []
    import queue
    q = queue.Queue()
    for s in range(nslots):
        q.put(s)

    def run(job):
        s = q.get()
        try:
            return verify(job[0], job[1], s)
        finally:
            q.put(s)
    with ThreadPoolExecutor(nslots) as ex:
        for r in ex.map(run, jobs):
            if r:
                results.append(r)
                print(r["property"], r["n"], "valid" if r.get("valid") else "INVALID",
                      {k: r.get(k) for k in ("applies", "tests_rc", "demo_clean_rc", "demo_patched_rc")},
                      flush=True)
    json.dump(results, open("/verif/seeded/verification.json", "w"), indent=1)
    for s in range(nslots):
        sh("git -C /repo worktree remove --force /tmp/wtv/%d" % s)


if __name__ == "__main__":
    main()
