"""C07 - tensor variable names tell the truth and inputs are never modified.

Events: the global namespace after the emitted program ran on the reference
model; deep snapshots of every user-supplied tensor before/after; every
mutating model operation on an object reachable from an input (ownership
tags).  Oracle: each variable <Name>_<Ranks>[_flat] bound to a tensor has
rank ids spelling <Ranks>; each Einsum's result is bound under
<Out>_<declared-or-rank-order ranks> with integer coordinates inside the root
extents; every input is bit-identical and still bound under its name."""
import random

from .. import case as C, corpus, kf, model
from . import common, c04

ID = "C07"
NEEDS_MODEL = True
LEVEL = "exploration"
N = {"quick": 2000, "thorough": 60000}
CLASSES = ["plain", "shape", "occupancy", "flatten", "affine", "cascade", "flatten3", "shape",
           "double-flatten", "cascade", "flatten-lookup", "rewrite", "affine-cascade", "dynflatten2"]
TECHNIQUE = ("runtime monitoring: namespace / rank-id / ownership monitors on instrumented "
             "executions of emitted programs on the reference model")


def classify(spec, problems, extents=None):
    k = kf.classify_plain(spec, problems)
    if k:
        return k
    if "partitioned" in spec.tags and "halo" in spec.tags:
        # KF-3: only out-of-extent coordinates on an index-math output
        if all(p["kind"] == "output-coordinate-space" for p in problems):
            return "KF-3" if "S4" not in spec.tags else "KF-4"
    return None


def run_one(st, cls, spec, mode, ext, rnd):
    cs = C.make_case(spec, rnd, lo=1, hi=6, extents=ext, mode=mode)
    out = C.evaluate(cs, monitors=("names",))
    if out.status == "ok":
        ex = out.ex
        # every output must be bound under its declared-or-rank-order name
        for e in spec.exprs:
            n = e.out.name
            order = spec.order_of(n)
            var = n + "_" + "".join(order)
            t = ex.ns.get(var)
            if not isinstance(t, model.Tensor):
                out.problems.append({"kind": "output-not-bound-under-declared-name", "var": var})
            elif t.getRankIds() != list(order):
                out.problems.append({"kind": "output-rank-ids", "var": var,
                                     "rank_ids": t.getRankIds()})
        st.bump("monitor", "namespaces-checked")
        st.bump("monitor", "named-tensors", sum(
            1 for k, v in ex.ns.items() if isinstance(v, model.Tensor) and "_" in k))
        st.bump("monitor", "inputs-snapshotted", len(ex.input_objs))
        st.bump("monitor", "setRankIds-events", ex.rec.counts.get("set_rank_ids", 0))
    st.account(ID, cs, out, lambda s, p: classify(s, p, cs.extents))


def shard(tier, seed, shard, nshards):
    st = common.Stats()
    n = N[tier] // nshards
    for i in range(n):
        it = corpus.item(ID, seed, shard, i, CLASSES)
        if it is None:
            continue
        run_one(st, *it)
    return st.result()


def replay(v):
    cs = C.Case.from_json(v["case"])
    st = common.Stats()
    out = C.evaluate(cs, monitors=("names",))
    st.account(ID, cs, out, lambda s, p: classify(s, p, cs.extents))
    return st.violations


def finalize(results, counters, tier, seed):
    inc = []
    mon = counters.get("monitor", {})
    if mon.get("namespaces-checked", 0) < N[tier] // 4:
        inc.append("too few namespaces checked: %r" % mon)
    if mon.get("setRankIds-events", 0) == 0:
        inc.append("no setRankIds call was ever observed")
    cov = {"rule": "shared corpus (classes %s) executed on the model; distinct = distinct spec; "
                   "non-trivial = accepted, all loops iterated, >=1 update" % ", ".join(CLASSES)}
    return cov, common.MODEL_ASSUMPTIONS + [
        "split/flatten/swizzle return new tensor objects that share the payloads below the "
        "transformed ranks (as fibertree does); setRankIds is in place"], inc
