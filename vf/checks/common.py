"""Shared accounting for model-based checks."""
from .. import case as C

MODEL_ASSUMPTIONS = [
    "reference HiFiber model (vf/model.py) is the trusted base for executing emitted programs; "
    "it is validated on every run against the 19 golden programs and 6 accelerator specs of the "
    "repository (a mismatch makes the check inconclusive)",
    "dense evaluator (vf/dense.py) computes the mathematical Einsum from the generator's own "
    "structure, not from the compiler's parse",
    "explicit zeros / empty fibers created by '<<' are not differences",
]


class Stats:
    def __init__(self):
        self.evaluations = 0
        self.keys = set()
        self.violations = []
        self.counters = {"status": {}, "rejected_msgs": {}, "crash_msgs": {}, "skipped_msgs": {},
                         "strata_ok": {}, "events": {}, "loops_entered": 0, "updates": 0}
        self.samples = []
        self.inconclusive = []

    def bump(self, group, key, n=1):
        g = self.counters.setdefault(group, {})
        g[key] = g.get(key, 0) + n

    def account(self, pid, cs, out, classify=None, mode_key="", must_compile=False):
        """Standard accounting of an Outcome.  Returns True if it executed.
        must_compile: the property promises a program for every spec of this
        class (C01, C02), so a refusal or crash is itself reportable."""
        self.evaluations += 1
        self.bump("status", out.status)
        if must_compile and out.status in ("rejected", "crash"):
            self.violations.append(C.violation(
                pid, cs, [{"kind": "legal-spec-not-compiled", "error": out.message}],
                "no program for a spec of the class the property quantifies over: %s on `%s`" % (
                    out.message, "; ".join(e.text() for e in cs.spec.exprs))))
        if out.status == "rejected":
            self.bump("rejected_msgs", _short(out.message))
            return False
        if out.status == "crash":
            self.bump("crash_msgs", _short(out.message))
            if len(self.counters.setdefault("crash_examples", [])) < 3:
                self.counters["crash_examples"].append(
                    {"message": out.message, "yaml": cs.spec.yaml()})
            return False
        if out.status == "skipped":
            self.bump("skipped_msgs", _short(out.message))
            return False
        for t in cs.spec.tags:
            self.bump("strata_compiled", t)
        ex = out.ex
        if ex is not None:
            self.counters["loops_entered"] += sum(1 for l in ex.loops
                                                  if ex.loop_iters.get(l.id, 0) > 0)
            self.counters["updates"] += ex.update_count
            for k, v in ex.rec.counts.items():
                self.bump("events", k, v)
        if out.nontrivial:
            self.keys.add(C.spec_key(cs.spec, cs.mode, mode_key))
            for t in cs.spec.tags:
                self.bump("strata_ok", t)
        if out.problems:
            kf = classify(cs.spec, out.problems) if classify else None
            if kf is None:
                kf = kf11(cs.spec, out.problems) or kf14(cs.spec, out.problems)
            p0 = out.problems[0]
            summ = "%s on `%s` %s" % (p0.get("kind"), "; ".join(e.text() for e in cs.spec.exprs),
                                      {k: v for k, v in p0.items() if k not in ("kind", "tb")})
            self.violations.append(C.violation(pid, cs, out.problems, summ, kf))
        elif len(self.samples) < 2 and out.nontrivial:
            self.samples.append({"yaml": cs.spec.yaml(), "extents": cs.extents, "mode": cs.mode,
                                 "loops": len(ex.loops) if ex is not None else None,
                                 "updates": ex.update_count if ex is not None else None,
                                 "text_head": out.compiled.text.splitlines()[:12]})
        return True

    def result(self):
        return {"evaluations": self.evaluations, "nontrivial_keys": sorted(self.keys),
                "violations": self.violations, "counters": self.counters,
                "samples": self.samples, "inconclusive": self.inconclusive}


KF11_KINDS = ("value-mismatch", "differs-from-unpartitioned", "differs-from-unmapped",
              "differs-from-plain", "output-structure", "exec-error", "contribution-multiset",
              "output-coordinate-space", "input-name-rebound-differently", "name-lies")


def kf11(spec, problems):
    """KF-11: a needed swizzle was dropped because two rank orders spell the same tensor
    name - attributed only when the probe on Header.make_swizzle saw exactly that happen
    while this spec was compiled, and only for run-time symptoms of a wrong layout."""
    from .. import hooks
    if not hooks.swizzle_skipped_for(spec):
        return None
    if all(p.get("kind") in KF11_KINDS for p in problems):
        return "KF-11"
    return None


def kf14(spec, problems):
    """KF-14: a rank whose lower-case name is a Python keyword (IN, IS, OR, AS, IF): the loop
    variable is that keyword, so the text does not parse.  Explains only 'does not parse'."""
    import keyword
    ranks = {r for rs in spec.decl.values() for r in rs}
    if not any(keyword.iskeyword(r.lower()) for r in ranks):
        return None
    for p in problems:
        k = p.get("kind")
        if k == "syntax-error":
            continue
        if k == "exec-error" and p.get("etype") == "SyntaxError":
            continue
        if k == "tree-text-mismatch" and str(p.get("text", "")).startswith("SyntaxError"):
            continue
        return None
    return "KF-14"


def _short(msg):
    import re
    m = (msg or "")[:90]
    return re.sub(r"[0-9]+", "#", m)


def repo_suite_workload(st, pid, kinds):
    """Run the repository's own test-suite with vf.pytest_plugin and account the
    monitor results of the given problem kinds.  Never a reason to fail the check if
    pytest itself cannot run (counted as 'suite-not-run')."""
    import json
    import os
    import subprocess
    import sys
    import tempfile
    from .. import run
    here = os.path.dirname(os.path.dirname(os.path.dirname(os.path.abspath(__file__))))
    fd, out = tempfile.mkstemp(suffix=".json", dir=os.path.join(here, ".work")
                               if os.path.isdir(os.path.join(here, ".work")) else None)
    os.close(fd)
    env = dict(os.environ, PYTHONPATH=here + os.pathsep + run.REPO, VF_PLUGIN_OUT=out,
               PYTHONDONTWRITEBYTECODE="1")
    try:
        r = subprocess.run([sys.executable, "-m", "pytest", "-q", "-x", "-p", "no:cacheprovider",
                            "-p", "vf.pytest_plugin", "tests"], cwd=run.REPO, env=env,
                           capture_output=True, text=True, timeout=900)
        j = json.load(open(out))
    except Exception as e:  # noqa
        st.bump("monitor", "suite-not-run")
        return
    finally:
        try:
            os.remove(out)
        except OSError:
            pass
    st.bump("monitor", "suite-hifiber-objects", j.get("monitored", 0))
    for rec in j.get("records", []):
        st.evaluations += 1
        for p in rec.get("problems", []):
            if p.get("kind") not in kinds:
                continue
            kfid = p.get("known_finding")
            st.violations.append({"property": pid, "known_finding": kfid,
                                  "summary": "repo test-suite workload: %s in the program for `%s` "
                                             "(%s mode): %s" % (p.get("kind"), rec.get("exprs"),
                                                                rec.get("mode"),
                                                                {k: v for k, v in p.items()
                                                                 if k not in ("kind",)}),
                                  "problems": [p], "case": {"kind": "repo-test-suite",
                                                            "exprs": rec.get("exprs")}})
