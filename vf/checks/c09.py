"""C09 - printed text denotes the syntax tree the compiler built.  Oracle:
canonical-term equality between HiFiber(...).hifiber and ast.parse(str(...)),
for whole programs of the shared corpus (all modes) and for expressions built
directly by the coordinate-expression builder, the halo builder and the n-way
step substitution."""
import random

from .. import case as C, run, corpus, kf
from ..monitors import treeeq
from ..yamlspec import spec_from_yaml
from . import common

ID = "C09"
NEEDS_MODEL = False
LEVEL = "exploration"
N = {"quick": 3200, "thorough": 100000}
NEXPR = {"quick": 6000, "thorough": 200000}
TECHNIQUE = ("runtime monitoring: structural monitor comparing the HiFiber tree the real translator "
             "built with Python's own parse of the text it printed, over seeded generated specs and "
             "direct drives of the expression builders")


def check_program(st, cs, compiled, cls):
    out = C.Outcome()
    out.compiled = compiled
    if not compiled.ok:
        out.status = "rejected" if compiled.rejected else "crash"
        out.message = "%s: %s" % (compiled.etype, compiled.error)
        st.account(ID, cs, out, None, mode_key=cs.mode)
        return
    out.status = "ok"
    out.nontrivial = True
    try:
        d, sz = treeeq.compare_stmt(compiled.obj.hifiber, compiled.text)
    except treeeq.TreeUnsupported as e:
        st.bump("monitor", "unsupported-node")
        st.inconclusive.append("tree converter met an unknown node: %s" % e)
        return
    st.bump("monitor", "trees-compared")
    st.bump("monitor", "tree-nodes", sz)
    st.bump("class_ok", cls + "/" + cs.mode)
    if d:
        out.problems.append(dict(d, kind="tree-text-mismatch"))
    st.account(ID, cs, out, kf.kf12, mode_key=cs.mode)


def gen_sympy_expr(rnd):
    from sympy import Symbol, Rational, Integer
    vs = [Symbol(n) for n in rnd.sample(["q", "s", "w", "p", "r", "h", "m", "k"], rnd.randint(1, 3))]
    e = Integer(0)
    for v in vs:
        c = rnd.choice([1, 1, 2, 3, 4, -1, -2, Rational(1, 2), Rational(-1, 2), Rational(1, 3),
                        Rational(-1, 3), Rational(1, 4), Rational(2, 3), Rational(-3, 2)])
        e = e + c * v
    if rnd.random() < 0.4:
        e = e + rnd.choice([1, -1, 2, Rational(1, 2), -3])
    if rnd.random() < 0.15:
        e = e * rnd.choice([2, Rational(1, 2), -1])
    return e


def expr_driver(st, tier, seed, shard, nshards):
    """Drive the expression builders directly."""
    from teaal.trans.coord_access import CoordAccess
    from teaal.trans.utils import TransUtils
    import teaal.hifiber as H
    from sympy import Symbol
    n = NEXPR[tier] // nshards
    for i in range(n):
        rnd = random.Random("%s-expr-%d-%d-%d" % (ID, seed, shard, i))
        se = gen_sympy_expr(rnd)
        try:
            he = CoordAccess.build_expr(se)
        except ValueError:
            st.bump("monitor", "build_expr-refused")
            continue
        exprs = [("build_expr", he)]
        # substitution of a compound step for a variable, as the partitioner does
        syms = sorted(se.atoms(Symbol), key=str)
        if syms:
            v = rnd.choice(syms)
            iso = CoordAccess.isolate_rank(se, str(v))
            try:
                hiso = CoordAccess.build_expr(iso)
                step = H.EBinOp(H.EBinOp(H.EParens(H.EBinOp(H.EVar(str(v).upper()), H.OSub(),
                                                             H.EInt(1))), H.OFDiv(),
                                         H.EInt(rnd.randint(1, 5))), H.OAdd(), H.EInt(1))
                exprs.append(("lambda", H.ELambda([str(v)], he)))
                del hiso, step
            except ValueError:
                pass
        for kind, e in exprs:
            try:
                d, sz = treeeq.compare_expr(e)
            except treeeq.TreeUnsupported as ex:
                st.inconclusive.append("expr converter: %s" % ex)
                continue
            st.evaluations += 1
            st.bump("monitor", "exprs-compared")
            st.bump("monitor", "expr-nodes", sz)
            st.keys.add("expr:" + e.gen())
            if d:
                st.violations.append({"property": ID, "summary": "expression %s printed as `%s` "
                                      "does not denote its tree: %r" % (kind, e.gen(), d),
                                      "problems": [dict(d, kind="expr-text-mismatch")],
                                      "case": {"kind": "expr", "sympy": str(se), "which": kind},
                                      "known_finding": None})


def stride_nway_specs(rnd):
    """Specs that push an n-way step through a strided follower (the F3
    shape) and halos through the printer."""
    from ..gen import affine as GA
    strat = rnd.choice(["S2", "S3", "S4", "S5", "S7", "S7"])
    spec, ext, info = GA.gen_affine(rnd, strat)
    parts = (spec.partitioning or {}).get("O") or {}
    if strat != "S7" or rnd.random() < 0.5:
        for r in list(parts):
            if parts[r] and not parts[r][0].startswith(("follow", "uniform_occ")):
                parts[r] = ["nway_shape(%d)" % rnd.randint(1, 5)] + parts[r][1:]
    if strat == "S7" and info.get("follower") == "q":
        # any loop order the compiler accepts will do: the text is only compared with its tree
        dims = info["dims"][0]
        n = dims["nlev"]
        wl = [dims["w"] + str(j) for j in range(n, -1, -1)]
        lo = rnd.choice([wl + [dims["s"]], [dims["q"] + str(j) for j in range(n, -1, -1)] +
                         [dims["s"]]])
        rest = [r for r in spec.loop_order["O"] if r[0] not in (dims["w"][0], dims["q"][0]) and
                r != dims["s"]]
        spec.loop_order = {"O": rest + lo}
    return spec, ext


def shard(tier, seed, shard, nshards):
    st = common.Stats()
    n = N[tier] // nshards
    if shard == 1:
        common.repo_suite_workload(st, ID, ("tree-text-mismatch",))
    if shard == 0:
        for name, y, mode in corpus.repo_yaml_corpus(run.REPO):
            try:
                spec = spec_from_yaml(y)
            except (KeyError, TypeError, ValueError):
                continue
            for m in (["plain", "metrics"] if mode == "metrics" else ["plain"]):
                s2 = spec.clone()
                s2.tags = ["repo-yaml"]
                if m == "plain":
                    s2.extra = ""
                cs = C.Case(s2, {}, {}, {}, m)
                check_program(st, cs, run.compile_yaml(s2.yaml(), m), "repo")
    for i in range(n):
        if i % 9 == 8:
            rnd = random.Random("%s-nway-%d-%d-%d" % (ID, seed, shard, i))
            spec, ext = stride_nway_specs(rnd)
            cls, mode = "stride-nway", "plain"
        elif i % 31 == 30:
            # coordinate-style stamps on flattened ranks: only the printer is judged here
            from ..gen import einsum as GE, mapping as GM, spacetime as GS
            rnd = random.Random("%s-flatcoord-%d-%d-%d" % (ID, seed, shard, i))
            spec = None
            for _ in range(30):
                b, info = GE.gen_plain(rnd, products_only=True, allow_take=False, max_ranks=3)
                f = GM.add_flatten(rnd, b, info)
                if f is not None:
                    spec = GS.add_spacetime(rnd, f, all_stamped=True, flat_coord=True)
                    if spec is not None:
                        break
            if spec is None:
                continue
            cls, mode, ext = "flat-coord-stamp", "plain", None
        else:
            it = corpus.item(ID, seed, shard, i)
            if it is None:
                continue
            cls, spec, mode, ext, rnd = it
        cs = C.Case(spec, ext or {}, {}, {}, mode)
        check_program(st, cs, run.compile_yaml(spec.yaml(), mode), cls)
    expr_driver(st, tier, seed, shard, nshards)
    return st.result()


def replay(v):
    st = common.Stats()
    c = v.get("case", {})
    if c.get("kind") == "expr":
        from sympy import sympify
        from teaal.trans.coord_access import CoordAccess
        e = CoordAccess.build_expr(sympify(c["sympy"]))
        d, _ = treeeq.compare_expr(e)
        return [{"summary": "expression printed as `%s`: %r" % (e.gen(), d)}] if d else []
    cs = C.Case.from_json(c)
    check_program(st, cs, run.compile_yaml(cs.spec.yaml(), cs.mode), "replay")
    return st.violations


def finalize(results, counters, tier, seed):
    inc = []
    mon = counters.get("monitor", {})
    if mon.get("trees-compared", 0) < N[tier] // 4:
        inc.append("too few trees compared: %r" % mon)
    if mon.get("exprs-compared", 0) < NEXPR[tier] // 4:
        inc.append("too few builder expressions compared: %r" % mon)
    cov = {"rule": "HiFiber tree vs ast.parse(text) for every accepted corpus spec (all modes), the "
                   "repository's integration YAMLs, strided n-way specs, and random affine sympy "
                   "expressions (integer and rational coefficients) through CoordAccess.build_expr; "
                   "distinct = distinct (spec, mode) or distinct printed expression",
           "classes_accepted": counters.get("class_ok", {})}
    return cov, ["EParens erased; chains of one associative operator (+ * & |) flattened on both "
                 "sides; negative EInt == unary minus on a literal",
                 "Python's ast module is the reference reading of the text"], inc
