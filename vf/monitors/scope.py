"""C06 oracle: the emitted text parses and is closed.

Flow-sensitive definite-assignment analysis over the statement language the
printer can produce (Assign, AugAssign, Expr, For, If/elif/else; lambdas and
comprehensions scoped).  A read is legal iff the name is bound on EVERY path
reaching it (loops may run zero times, so nothing bound inside a loop body
survives it, and loop variables die at loop exit) or is in the supplied set,
which is computed from the specification alone."""
import ast
import re

from ..yamlspec import symbolic_sizes

API_PLAIN = {"Tensor", "Fiber"}
API_CANVAS = {"createCanvas", "displayCanvas"}
API_METRICS = {"Metrics", "Traffic", "Format", "Compute", "LeaderFollowerIntersector",
               "SkipAheadIntersector", "TwoFingerIntersector"}
BUILTINS = {"enumerate", "len", "int", "min", "max", "float", "sum", "range", "str", "list",
            "dict", "tuple", "set", "sorted", "abs", "True", "False", "None"}


def supplied_names(spec, mode="plain"):
    """The names the user is expected to supply, from the spec alone."""
    s = set(API_PLAIN) | set(BUILTINS)
    if spec.spacetime and mode != "metrics":
        s |= API_CANVAS
    if mode == "metrics":
        s |= API_METRICS
    for name in spec.user_inputs():
        s.add(name + "_" + "".join(spec.order_of(name)))
    s.update(spec.all_ranks())
    s.update(spec.scalars())
    s.update(symbolic_sizes(spec))
    s.update(spec.syms)
    return s


class Unsupported(Exception):
    pass


def _target_names(t, out):
    if isinstance(t, ast.Name):
        out.add(t.id)
    elif isinstance(t, (ast.Tuple, ast.List)):
        for e in t.elts:
            _target_names(e, out)
    elif isinstance(t, ast.Starred):
        _target_names(t.value, out)
    else:
        raise Unsupported("target " + type(t).__name__)


def analyse(text, supplied):
    """Returns (problems, stats).  problems: list of dicts."""
    try:
        tree = ast.parse(text)
    except SyntaxError as e:
        return [{"kind": "syntax-error", "error": str(e), "line": e.lineno}], {}
    bad = []
    stats = {"reads": 0, "stmts": 0, "loops": 0}

    def reads(expr, bound):
        def go(n, local):
            if isinstance(n, ast.Name):
                if isinstance(n.ctx, ast.Load):
                    stats["reads"] += 1
                    if n.id not in bound and n.id not in local and n.id not in supplied:
                        bad.append({"kind": "unbound-read", "name": n.id, "line": n.lineno})
            elif isinstance(n, ast.Lambda):
                l2 = set(local) | {a.arg for a in n.args.args}
                go(n.body, l2)
            elif isinstance(n, (ast.ListComp, ast.GeneratorExp, ast.SetComp, ast.DictComp)):
                l2 = set(local)
                for g in n.generators:
                    go(g.iter, l2)
                    t = set()
                    _target_names(g.target, t)
                    l2 |= t
                    for c in g.ifs:
                        go(c, l2)
                if isinstance(n, ast.DictComp):
                    go(n.key, l2)
                    go(n.value, l2)
                else:
                    go(n.elt, l2)
            else:
                for c in ast.iter_child_nodes(n):
                    go(c, local)
        go(expr, set())

    def block(stmts, bound, loopvars):
        bound = set(bound)
        for s in stmts:
            stats["stmts"] += 1
            if isinstance(s, ast.Assign):
                reads(s.value, bound)
                for t in s.targets:
                    if isinstance(t, ast.Name):
                        bound.add(t.id)
                    elif isinstance(t, ast.Subscript):
                        reads(t.value, bound)
                        reads(t.slice, bound)
                    elif isinstance(t, ast.Attribute):
                        reads(t.value, bound)
                    else:
                        o = set()
                        _target_names(t, o)
                        bound |= o
            elif isinstance(s, ast.AugAssign):
                if isinstance(s.target, ast.Name):
                    stats["reads"] += 1
                    if s.target.id not in bound and s.target.id not in supplied:
                        bad.append({"kind": "unbound-read", "name": s.target.id, "line": s.lineno})
                else:
                    reads(s.target.value, bound)
                    if isinstance(s.target, ast.Subscript):
                        reads(s.target.slice, bound)
                reads(s.value, bound)
            elif isinstance(s, ast.Expr):
                reads(s.value, bound)
            elif isinstance(s, ast.For):
                stats["loops"] += 1
                reads(s.iter, bound)
                t = set()
                _target_names(s.target, t)
                if s.orelse:
                    raise Unsupported("for-else")
                block(s.body, bound | t, loopvars | t)
                # zero-trip: nothing escapes; loop variables die here
            elif isinstance(s, ast.If):
                reads(s.test, bound)
                b1 = block(s.body, bound, loopvars)
                b2 = block(s.orelse, bound, loopvars) if s.orelse else set(bound)
                bound = b1 & b2
            elif isinstance(s, ast.Pass):
                pass
            else:
                raise Unsupported("statement " + type(s).__name__)
        return bound

    try:
        final = block(tree.body, set(), set())
    except Unsupported as e:
        return [{"kind": "unsupported-construct", "what": str(e)}], stats
    stats["final_bound"] = len(final)
    # dedupe
    seen = set()
    out = []
    for b in bad:
        k = (b["name"], b["line"])
        if k not in seen:
            seen.add(k)
            out.append(b)
    return out, stats


def empty_block_problem(text):
    """A `for`/`if` header followed by nothing is a syntax error that
    ast.parse reports; kept for clarity of the message."""
    return None


NAME_RE = re.compile(r"name '([^']+)' is not defined")
