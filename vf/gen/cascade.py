"""Cascades of 2-4 Einsums (producer/consumer chains and diamonds), each with
its own mapping."""
from ..spec import Acc, Term, Einsum, Spec
from . import mapping as M
from .einsum import RANKS, _acc, random_rank_orders, pick_pool

OUTS = ["T", "U", "V", "Z"]


def _einsum_info(spec, e):
    out_ranks = list(spec.decl[e.out.name])
    term_ranks = []
    for t in e.terms:
        for a in t.tensors():
            for r in spec.decl[a.name]:
                if r not in term_ranks:
                    term_ranks.append(r)
    ranks = out_ranks + [r for r in term_ranks if r not in out_ranks]
    return {"ranks": ranks, "contracted": [r for r in term_ranks if r not in out_ranks],
            "strata": []}


def gen_cascade(rnd, n=None, mapped=True):
    n = n or rnd.choice([2, 2, 3, 3, 4])
    decl = {}
    exprs = []
    fresh = iter("ABCDEFGHIJKLMNOPQRS")
    produced = []          # names
    tags = ["cascade%d" % n]
    consumed = {}
    user_inputs = []
    shared_input = False
    RP = list(pick_pool(rnd))[:4]
    for i in range(n):
        used_here = set()
        out = OUTS[i] if i < n - 1 else "Z"
        # inputs from earlier Einsums
        prev = []
        if produced:
            k = 1 if rnd.random() < 0.7 else min(2, len(produced))
            # prefer the most recent one so that chains form
            cands = list(produced)
            prev = [cands[-1]] if rnd.random() < 0.7 else [rnd.choice(cands)]
            if k == 2:
                others = [c for c in cands if c not in prev]
                if others:
                    prev.append(rnd.choice(others))
        base = []
        for p in prev:
            for r in decl[p]:
                if r not in base:
                    base.append(r)
        pool = [r for r in RP if r not in base]
        extra = rnd.sample(pool, min(len(pool), rnd.choice([0, 1, 1, 2]))) if pool else []
        ranks = base + extra
        if not ranks:
            ranks = [rnd.choice(RP)]
        if len(ranks) > 3:
            ranks = ranks[:3] if all(r in ranks[:3] for r in base) else ranks
        nterms = 1 if rnd.random() < 0.65 else 2
        terms = []
        # distribute prev over terms (a tensor may appear once per Einsum)
        slots = [[] for _ in range(nterms)]
        for p in prev:
            slots[rnd.randrange(nterms)].append(p)
        for t in range(nterms):
            facs = [_acc(p, decl[p]) for p in slots[t]]
            cover = set(r for p in slots[t] for r in decl[p])
            nf = rnd.randint(0 if facs else 1, 2)
            for f in range(nf):
                # a user input may be read by several Einsums (each tensor once per Einsum)
                olds = [x for x in user_inputs if x not in used_here and decl[x] and
                        all(r in ranks for r in decl[x])]
                if olds and rnd.random() < 0.35:
                    name = rnd.choice(olds)
                    used_here.add(name)
                    facs.append(_acc(name, decl[name]))
                    cover |= set(decl[name])
                    shared_input = True
                    continue
                k = rnd.randint(1, len(ranks))
                fr = rnd.sample(ranks, k)
                name = next(fresh)
                decl[name] = fr
                user_inputs.append(name)
                used_here.add(name)
                facs.append(_acc(name, fr))
                cover |= set(fr)
            missing = [r for r in ranks if r not in cover]
            if missing:
                name = next(fresh)
                rnd.shuffle(missing)
                user_inputs.append(name)
                used_here.add(name)
                decl[name] = missing
                facs.append(_acc(name, missing))
            rnd.shuffle(facs)
            terms.append(Term("times", facs))
        out_ranks = [r for r in ranks if rnd.random() < 0.65]
        if i < n - 1 and not out_ranks and rnd.random() < 0.8:
            out_ranks = [rnd.choice(ranks)]
        rnd.shuffle(out_ranks)
        decl[out] = out_ranks
        exprs.append(Einsum(_acc(out, out_ranks), terms))
        for p in prev:
            consumed[p] = consumed.get(p, 0) + 1
        produced.append(out)
    if n >= 2 and rnd.random() < 0.15:
        # an output written twice (as tests/integration/example7 does) and read again after
        # the second write, non-concordantly if the rank orders say so
        victims = [p for p in produced[:-1] if decl[p] and consumed.get(p)]
        if victims:
            pv = rnd.choice(victims)
            f = next(fresh)
            decl[f] = list(decl[pv])
            rnd.shuffle(decl[f])
            user_inputs.append(f)
            exprs.append(Einsum(_acc(pv, decl[pv]), [Term("times", [_acc(f, decl[f])])]))
            g = next(fresh)
            decl[g] = list(decl[pv])
            rnd.shuffle(decl[g])
            user_inputs.append(g)
            rd = "W9"
            decl[rd] = [r for r in decl[pv] if rnd.random() < 0.7] or list(decl[pv][:1])
            fs = [_acc(pv, decl[pv]), _acc(g, decl[g])]
            rnd.shuffle(fs)
            exprs.append(Einsum(_acc(rd, decl[rd]), [Term("times", fs)]))
            produced.append(rd)
            tags.append("output-written-twice")
    if any(v > 1 for v in consumed.values()):
        tags.append("consumed-twice")
    if shared_input:
        tags.append("input-shared-by-einsums")
    if any(not decl[p] for p in produced[:-1]):
        tags.append("rank0-intermediate")
    spec = Spec(decl, exprs, rank_order=random_rank_orders(rnd, decl, p=0.6), tags=tags)
    if any(p in spec.rank_order and spec.rank_order[p] != decl[p] for p in produced[:-1]):
        spec.tags.append("intermediate-reordered")
    if not mapped:
        return spec
    # per-Einsum mapping
    done = set()
    for i, e in enumerate(spec.exprs):
        if sum(1 for e2 in spec.exprs if e2.out.name == e.out.name) > 1:
            # mapping sections are keyed by output name: both writers share the entry, so
            # only a split of one of the output's own ranks, under the default loop order
            if e.out.name not in done and spec.decl[e.out.name] and rnd.random() < 0.6:
                done.add(e.out.name)
                r = rnd.choice(spec.decl[e.out.name])
                p = dict(spec.partitioning or {})
                p[e.out.name] = {r: [rnd.choice(["uniform_shape(%d)", "nway_shape(%d)"])
                                     % rnd.randint(2, 4)]}
                spec.partitioning = p
                spec.tags.append("twice-written-output-partitioned")
            done.add(e.out.name)
            continue
        info = _einsum_info(spec, e)
        single = len(e.terms) == 1
        choice = rnd.choice(["none", "loop", "shape", "shape", "occ", "flat"])
        new = None
        if choice == "shape":
            new = M.add_shape_partitioning(rnd, spec, info, ordered=True, ei=i)
            tag = "map-shape"
        elif choice == "occ" and single:
            new = M.add_occupancy(rnd, spec, info, ei=i)
            tag = "map-occupancy"
        elif choice == "flat" and single:
            new = M.add_flatten(rnd, spec, info, ei=i)
            tag = "map-flatten"
        elif choice == "loop":
            lo = list(info["ranks"])
            rnd.shuffle(lo)
            new = spec.clone()
            l = dict(new.loop_order or {})
            l[e.out.name] = lo
            new.loop_order = l
            tag = "map-loop-order"
        if new is not None:
            spec = new
            spec.tags.append(tag)
            if i < n - 1 and tag in ("map-occupancy", "map-flatten", "map-shape"):
                spec.tags.append("mapped-predecessor")
    return spec


def standalone(spec, i):
    """Einsum i compiled alone with the same declaration and mapping."""
    s = spec.clone()
    e = s.exprs[i]
    s.exprs = [e]
    out = e.out.name
    for sec in ("partitioning", "loop_order", "spacetime"):
        d = getattr(s, sec)
        if d is not None:
            setattr(s, sec, {k: v for k, v in d.items() if k == out} or None)
    return s


def gen_reread(rnd):
    """A mapped Einsum (shape / occupancy / flatten / double flatten / 3-rank
    flatten) followed by a plain Einsum that reads one of its INPUTS again:
    whatever the first Einsum did to that input's variable must not be visible
    to the second."""
    from . import einsum as GE
    cls = rnd.choice(["shape", "occupancy", "flatten", "double-flatten", "flatten3", "flatten"])
    s = None
    for _ in range(60):
        if cls == "flatten3":
            s = M.gen_flatten3_discordant(rnd)
            break
        b, info = GE.gen_plain(rnd, products_only=True, allow_take=False, allow_scalar=False,
                               allow_rank0=False, max_ranks=4 if cls == "double-flatten" else 3)
        if cls == "shape":
            s = M.add_shape_partitioning(rnd, b, info, ordered=True)
        elif cls == "occupancy":
            s = M.add_occupancy(rnd, b, info)
        elif cls == "flatten":
            s = M.add_flatten(rnd, b, info)
        else:
            s = M.add_double_flatten(rnd, b, info)
        if s is not None:
            break
    if s is None:
        return None
    # rename the output Z -> T
    def ren(d):
        return None if d is None else {("T" if k == "Z" else k): v for k, v in d.items()}
    s.decl = ren(s.decl)
    s.rank_order = ren(s.rank_order)
    s.partitioning = ren(s.partitioning)
    s.loop_order = ren(s.loop_order)
    e1 = s.exprs[0]
    e1.out.name = "T"
    ins = [a.name for a in e1.inputs() if s.decl[a.name]]
    if not ins:
        return None
    x = rnd.choice(ins)
    rs = list(s.decl[x])
    s.decl["Z"] = list(rs)
    facs = [_acc(x, rs)]
    if s.decl["T"] and all(r in rs for r in s.decl["T"]) and rnd.random() < 0.6:
        facs.append(_acc("T", s.decl["T"]))
        rnd.shuffle(facs)
    s.exprs.append(Einsum(_acc("Z", rs), [Term("times", facs)]))
    if s.rank_order is not None and rnd.random() < 0.5:
        q = list(rs)
        rnd.shuffle(q)
        s.rank_order["Z"] = q
    s.tags = list(s.tags) + ["cascade2", "reread-input", "reread-after-" + cls]
    return s


def gen_rewrite(rnd):
    """An intermediate that is read under a static split, WRITTEN AGAIN, and read once more
    under the same split of that rank plus a split of another rank: anything the translator
    remembers about the first partitioned copy is stale by then.
        T[m,n] = A[m,n];  Y[..] = T[m,n] * B[..]  (M split);  T[m,n] = C[m,n];
        Z[..] = T[m,n] * D[..]  (M split the same way, N split too)"""
    from .mapping import interleave
    names = rnd.sample(["M", "N", "K", "J", "P"], rnd.choice([2, 2, 3]))
    tr = list(names)
    decl = {"T": list(tr)}
    fresh = iter("ABCDEFGH")

    def inp(ranks):
        n = next(fresh)
        rs = list(ranks)
        rnd.shuffle(rs)
        decl[n] = rs
        return _acc(n, rs)
    exprs = []

    def writer():
        fs = [inp(tr)]
        if rnd.random() < 0.3:
            fs.append(inp(rnd.sample(tr, rnd.randint(1, len(tr)))))
        exprs.append(Einsum(_acc("T", tr), [Term("times", fs)]))

    def reader(out):
        fs = [_acc("T", tr), inp(rnd.sample(tr, rnd.randint(1, len(tr))))]
        rnd.shuffle(fs)
        ors = [r for r in tr if rnd.random() < 0.6] or [tr[0]]
        rnd.shuffle(ors)
        decl[out] = ors
        exprs.append(Einsum(_acc(out, ors), [Term("times", fs)]))
    writer()
    reader("Y")
    writer()
    reader("Z")
    r1 = rnd.choice(tr)
    r2 = rnd.choice([r for r in tr if r != r1])
    d1 = rnd.choice(["uniform_shape(%d)", "nway_shape(%d)"]) % rnd.randint(2, 4)
    d2 = rnd.choice(["uniform_shape(%d)", "nway_shape(%d)"]) % rnd.randint(2, 4)
    parts = {"Y": {r1: [d1]}, "Z": {r1: [d1], r2: [d2]}}
    if rnd.random() < 0.3:
        parts["Y"][r2] = [d2]
    lo = {}
    for out in ("Y", "Z"):
        groups = [[r + "1", r + "0"] if r in parts[out] else [r] for r in tr]
        rnd.shuffle(groups)
        if rnd.random() < 0.6:
            lo[out] = interleave(rnd, groups, True)
    spec = Spec(decl, exprs, rank_order=random_rank_orders(rnd, decl, p=0.4),
                partitioning=parts, loop_order=lo or None,
                tags=["cascade", "cascade4", "output-written-twice", "rewrite-between-split-reads"])
    return spec


def gen_affine_cascade(rnd):
    """Two (or three) convolution-like Einsums over the SAME ranks and index variables with
    DIFFERENT coefficients (and sometimes a different mapping): whatever the translator
    solved, cached or partitioned for the first access must not leak into the second.
        O[q] = I[q + s] * F[s];   P[q] = I[2*q + s] * G[s] * O[q]"""
    n = rnd.choice([2, 2, 3])
    Q, S = rnd.randint(3, 8), rnd.randint(1, 4)
    decl = {"I": ["W"]}
    ext = {"Q": Q, "S": S}
    exprs, parts, lo, syms = [], {}, {}, {}
    outs = ["O", "P", "R"][:n]
    fresh = iter("FGHK")
    wmax = 1
    used = set()
    for i, out in enumerate(outs):
        for _ in range(20):
            a, b = rnd.choice([1, 1, 2, 4]), rnd.choice([1, 1, 2, -1])
            if (a, b) not in used:
                break
        used.add((a, b))
        wmax = max(wmax, a * (Q - 1) + max(0, b * (S - 1)) + 1)
        f = next(fresh)
        decl[f] = ["S"]
        facs = [Acc("I", [[(a, "q"), (b, "s")]]), _acc(f, ["S"])]
        if i > 0 and rnd.random() < 0.6:
            facs.append(_acc(outs[i - 1], ["Q"]))
        rnd.shuffle(facs)
        decl[out] = ["Q"]
        exprs.append(Einsum(_acc(out, ["Q"]), [Term("times", facs)]))
        k = rnd.random()
        if k < 0.35 and a in (1, 2):
            # (a literal size would run into KF-5: the Q0 loop walks the output alone)
            syms["Q0"] = syms.get("Q0") or rnd.randint(2, 4)
            parts[out] = {"Q": ["uniform_shape(Q0)"], "W": ["follow(Q)"]}
            lo[out] = ["Q1", "Q0", "S"]
        elif k < 0.65:
            lo[out] = rnd.choice([["Q", "S"], ["S", "Q"]])
    ext["W"] = wmax
    spec = Spec(decl, exprs, partitioning=parts or None, loop_order=lo or None, syms=syms,
                tags=["cascade", "affine-cascade", "cascade%d" % n])
    spec._extents = ext
    return spec
