"""Recording wrappers installed from the harness on the real compiler classes
(no source edit; active only inside the context managers below, which the
checks enter with TEAAL_VERIF=1 set).

Every wrapper counts its calls: a check whose deciding wrapper saw zero calls
must report INCONCLUSIVE (references bound before the wrapper was installed
bypass it)."""
import contextlib
import os
import random

CALLS = {}


def _count(k):
    CALLS[k] = CALLS.get(k, 0) + 1


def enabled():
    return os.environ.get("TEAAL_VERIF") == "1"


def tensor_state(t):
    return {"iter_ptr": t.iter_ptr, "rank_ptr": t.rank_ptr, "ranks": list(t.ranks),
            "init_ranks": list(t.init_ranks), "is_output": t.is_output, "is_flat": t.is_flat}


def fresh_state_problems(program):
    """Invariant at the quiescent point between Einsums: every shared tensor
    equals a freshly constructed one and the Program is unconfigured."""
    probs = []
    for name, t in program.tensors.items():
        st = tensor_state(t)
        if st["iter_ptr"] != 0 or st["rank_ptr"] != 0 or st["ranks"] != st["init_ranks"] or \
                st["is_output"] or st["is_flat"]:
            probs.append({"tensor": name, "state": st})
    for f in ("equation", "loop_order", "partitioning", "spacetime"):
        if getattr(program, f) is not None:
            probs.append({"program_field": f, "value": "not None"})
    if program.es_tensors:
        probs.append({"program_field": "es_tensors", "value": "not empty"})
    return probs


class TranslateLog:
    def __init__(self):
        self.blocks = []        # text of each Einsum's statement block
        self.stmts = []
        self.state_before = []  # invariant problems seen before Einsum i
        self.state_after = []
        self.tmp_before = []


@contextlib.contextmanager
def capture_translate():
    """Record each Einsum's block and check the reset invariant around it."""
    from teaal.trans.hifiber import HiFiber
    log = TranslateLog()
    orig = HiFiber._HiFiber__translate

    def wrapped(self, i):
        _count("translate")
        log.state_before.append(fresh_state_problems(self.program))
        log.tmp_before.append(self.trans_utils.count)
        stmt = orig(self, i)
        log.state_after.append(fresh_state_problems(self.program))
        log.stmts.append(stmt)
        log.blocks.append(stmt.gen(0))
        return stmt
    HiFiber._HiFiber__translate = wrapped
    try:
        yield log
    finally:
        HiFiber._HiFiber__translate = orig


class FlowLog:
    def __init__(self):
        self.records = []   # dicts: graph, presort, posthoist, loop_order


@contextlib.contextmanager
def capture_flowgraph(tiebreak_seed=None):
    """Rebind teaal.trans.hifiber.FlowGraph to a recording subclass.  With
    tiebreak_seed, the topological sort is replaced by a seeded random
    tie-break (any result satisfies networkx's contract)."""
    import networkx as nx
    import teaal.trans.hifiber as TH
    from teaal.ir.flow_graph import FlowGraph
    log = FlowLog()
    rnd = random.Random(tiebreak_seed) if tiebreak_seed is not None else None

    class RecFlowGraph(FlowGraph):
        def _FlowGraph__sort(self):
            _count("flow_sort")
            if rnd is None:
                FlowGraph._FlowGraph__sort(self)
            else:
                g = self.graph
                indeg = {n: g.in_degree(n) for n in g.nodes}
                ready = [n for n in g.nodes if indeg[n] == 0]
                order = []
                while ready:
                    i = rnd.randrange(len(ready))
                    n = ready.pop(i)
                    order.append(n)
                    for s in g.successors(n):
                        indeg[s] -= 1
                        if indeg[s] == 0:
                            ready.append(s)
                if len(order) != g.number_of_nodes():
                    raise nx.NetworkXUnfeasible("cycle in flow graph")
                self.sorted = order
            self._vf_presort = list(self.sorted)

        def _FlowGraph__hoist(self):
            _count("flow_hoist")
            FlowGraph._FlowGraph__hoist(self)
            log.records.append({"graph": self.graph.copy(), "presort": self._vf_presort,
                                "posthoist": list(self.sorted),
                                "loop_order": list(self.program.get_loop_order().get_ranks())})

    orig = TH.FlowGraph
    TH.FlowGraph = RecFlowGraph
    try:
        yield log
    finally:
        TH.FlowGraph = orig


# ---------------------------------------------------------------- KF-11 probe
SWIZZLE_SKIPS = {}        # normalised expression text -> number of skipped swizzles
_CURRENT = [None]


def norm_exprs(exprs):
    return ";".join("".join(str(e).split()) for e in exprs)


def install_swizzle_probe():
    """Call-site probe for KF-11: Header.make_swizzle decides "no swizzle needed" by comparing
    tensor NAMES.  The wrapper (harness-side, no source edit) records every call in which the
    tensor's rank list changed but the name did not, i.e. a needed swizzle was dropped; a
    failing case is attributed to KF-11 only if this event was observed while ITS spec was
    being compiled."""
    from teaal.trans.header import Header
    if getattr(Header.make_swizzle, "_vf_probe", False):
        return
    orig = Header.make_swizzle

    def make_swizzle(self, tensor, ranks, type_):
        before = list(tensor.get_ranks())
        name_before = tensor.tensor_name()
        res = orig(self, tensor, ranks, type_)
        _count("make_swizzle")
        try:
            if tensor.tensor_name() == name_before and list(tensor.get_ranks()) != before:
                _count("swizzle_skipped_by_name")
                k = _CURRENT[0]
                if k is not None:
                    SWIZZLE_SKIPS[k] = SWIZZLE_SKIPS.get(k, 0) + 1
        except Exception:  # pragma: no cover
            pass
        return res
    make_swizzle._vf_probe = True
    Header.make_swizzle = make_swizzle


def swizzle_skipped_for(spec):
    return SWIZZLE_SKIPS.get(norm_exprs(e.text() for e in spec.exprs), 0) > 0
