"""Shared pieces of the metrics-mode checks (C11-C15)."""
import os
import random

from .. import case as C, run
from ..gen import arch as GA
from ..yamlspec import spec_from_yaml, symbolic_sizes

ACCEL = ["gamma", "extensor", "extensor-energy", "outerspace", "sigma"]


def accel_specs():
    out = []
    integ = os.path.join(run.REPO, "tests", "integration")
    for n in ACCEL:
        p = os.path.join(integ, n + ".yaml")
        if os.path.exists(p):
            s = spec_from_yaml(open(p).read())
            s.tags = ["accel-" + n, "metrics"]
            out.append(s)
    return out


def make_accel_case(spec, rnd):
    for sname in symbolic_sizes(spec):
        spec.syms.setdefault(sname, rnd.randint(2, 4))
    return C.make_case(spec, rnd, lo=3, hi=6, mode="metrics",
                       density=rnd.choice([0.7, 0.9, 1.0]))


VARIANTS = ["generic", "occ-conv", "merger-static", "eager2", "part", "reread-m", "lf-shared",
            "generic", "merger-dynamic", "alias-arch", "part", "lf-affine", "lf-take", "lf-take",
            "generic", "generic", "flat-out"]


def gen_item(pid, seed, shard, i, **kw):
    """Family chosen by index, so that every family occurs a fixed number of times whatever
    the seed (a family that never COMPILES then makes the check inconclusive)."""
    rnd = random.Random("%s-%d-%d-%d" % (pid, seed, shard, i))
    v = VARIANTS[(i + shard) % len(VARIANTS)]
    if v not in ("generic", "eager2") and "n_einsums" in kw and kw["n_einsums"] not in (None, 1, 2):
        v = "generic"
    if v in ("generic", "eager2"):
        return GA.gen_metrics(rnd, force=v, **kw), rnd
    return GA.gen_metrics(rnd, force=v), rnd


def refusal(compiled):
    """ValueError and NotImplementedError are the compiler saying no."""
    return compiled.etype in ("ValueError", "NotImplementedError")


def kf6(spec, problems):
    """KF-6: leader-follower intersection whose leader is not the first factor
    of its term: Fiber.intersection receives the leader first while the loop
    header destructures payloads in term order."""
    if "lf-leader-not-first" not in spec.tags:
        return None
    for p in problems:
        # (payloads bound to the wrong operands also put one rank's coordinates where
        # another's belong: coordinates outside the output's extent)
        if p.get("kind") not in ("exec-error", "value-mismatch", "differs-from-plain",
                                 "output-structure", "output-coordinate-space"):
            return None
    return "KF-6"

def kf16(spec, problems):
    """KF-16: an intersector bound to a rank that is not a loop rank of its Einsum (the
    mapping splits it away: bound to K while the loops are K1, K0) is created before the loops
    and queried in the dump but never fed.  Explains only 'queried but never fed', and only
    when the bindings name such a rank for an intersector."""
    from ..monitors import timemodel
    y = spec.yaml()
    arch = timemodel.arch_table(y)
    binds = timemodel.bindings_table(y)
    hit = False
    for e in spec.exprs:
        n = e.out.name
        ent = binds.get(n) or {"config": None, "components": {}}
        comps = (arch.get(ent["config"]) or {"components": {}})["components"]
        lo = (spec.loop_order or {}).get(n) or []
        for c, bl in ent["components"].items():
            if comps.get(c, {}).get("class") == "intersector":
                if any(isinstance(x, dict) and x.get("rank") not in lo for x in bl or []):
                    hit = True
    if not hit:
        return None
    if all(p.get("kind") == "intersector-queried-but-never-fed" for p in problems):
        return "KF-16"
    return None
