"""C16 - spacetime display is observation-only, complete and unambiguous.

Events: createCanvas / addActivity / displayCanvas calls recorded by stand-ins,
update events from the instrumented program, final tensors.
Oracle: tensors == the run of the same spec without spacetime (and == dense);
exactly one addActivity per executed update, in the same iteration; every
point has one coordinate per rank of the displayed tensor as passed to
createCanvas; when partition levels are looped outermost-to-innermost and
every loop rank is stamped, all (space, time) stamps of a canvas are
distinct; each canvas is displayed exactly once."""
import random

from .. import case as C, run, model, kf
from ..gen import spacetime as GS
from . import common, c04

ID = "C16"
NEEDS_MODEL = True
LEVEL = "exploration"
N = {"quick": 800, "thorough": 24000}


def classify(spec, problems, extents=None):
    k = kf.classify_plain(spec, problems)
    if k:
        return k
    if "st-affine" in spec.tags:
        return c04.classify(spec, problems, extents)
    return None


def canvas_checks(ex, spec, st):
    probs = []
    ev = ex.rec.events
    # one activity per update, right after it
    pending = 0
    n_upd = n_act = 0
    for kind, data in ev:
        if kind == "update":
            if pending:
                probs.append({"kind": "update-without-activity"})
                break
            pending = 1
            n_upd += 1
        elif kind == "addActivity":
            n_act += 1
            if not pending:
                probs.append({"kind": "activity-without-update"})
                break
            pending = 0
        elif kind in ("loop_enter", "loop_exit") and pending:
            probs.append({"kind": "update-without-activity-in-its-iteration"})
            break
    if len(ev) < ex.rec.cap:
        if pending:
            probs.append({"kind": "update-without-activity"})
        if ex.rec.counts.get("addActivity", 0) != ex.update_count:
            probs.append({"kind": "activity-count", "activities": ex.rec.counts.get("addActivity", 0),
                          "updates": ex.update_count})
    st.bump("monitor", "activities", n_act)
    want = sum(1 for e in spec.exprs if e.out.name in (spec.spacetime or {}))
    if len(ex.canvas.canvases) != want:
        probs.append({"kind": "canvas-count", "got": len(ex.canvas.canvases), "want": want})
    for c in ex.canvas.canvases:
        st.bump("monitor", "canvases")
        if c.displayed != 1:
            probs.append({"kind": "display-count", "displayed": c.displayed})
        ranks = [list(t.getRankIds()) if isinstance(t, model.Tensor) else None for t in c.tensors]
        # rank ids at creation time were recorded in the createCanvas event
        for pts, stamp in c.acts[:2000]:
            if len(pts) != len(c.tensors):
                probs.append({"kind": "points-vs-tensors", "points": len(pts),
                              "tensors": len(c.tensors)})
                break
        seen = {}
        for pts, stamp in c.acts:
            try:
                key = repr(stamp)
            except Exception:
                key = str(stamp)
            seen[key] = seen.get(key, 0) + 1
        c._dups = sum(1 for v in seen.values() if v > 1)
        c._stamps = len(seen)
    # arity against the rank ids recorded when the canvas was created
    creates = ex.rec.of("createCanvas")
    for c, cr in zip(ex.canvas.canvases, creates):
        for pts, stamp in c.acts[:2000]:
            bad = False
            for p, rids in zip(pts, cr["rank_ids"]):
                if rids is None:
                    continue
                if not isinstance(p, tuple) or len(p) != len(rids):
                    probs.append({"kind": "point-arity", "point": p, "rank_ids": rids})
                    bad = True
                    break
            if bad:
                break
            if not (isinstance(stamp, tuple) and len(stamp) == 2 and
                    all(isinstance(x, tuple) for x in stamp)):
                probs.append({"kind": "stamp-shape", "stamp": stamp})
                break
    return probs


def run_one(st, spec, rnd, ext):
    cs = C.make_case(spec, rnd, lo=1, hi=5, extents=ext)
    affine = "st-affine" in spec.tags
    out = C.evaluate(cs, monitors=(("names",) if affine else ("result", "names")))
    if out.status == "ok":
        ex = out.ex
        probs = canvas_checks(ex, spec, st)
        # stamps distinct when every loop rank is stamped (levels are ordered by construction)
        if "st-partly-stamped" not in spec.tags:
            for c in ex.canvas.canvases:
                st.bump("monitor", "stamps-checked", c._stamps)
                if c._dups:
                    probs.append({"kind": "duplicate-stamps", "n": c._dups})
        # observation only: same tensors as without spacetime
        ref = GS.without_spacetime(spec)
        o2 = C.evaluate(C.Case(ref, cs.extents, cs.inputs, cs.scalars), monitors=())
        if o2.status == "ok":
            st.bump("monitor", "differential-runs")
            for e in spec.exprs:
                n = e.out.name
                try:
                    a, oa = run.output_of(ex, spec, n)
                    b, ob = run.output_of(o2.ex, ref, n)
                    if a.toDict() != b.toDict() or a.getRankIds() != b.getRankIds():
                        probs.append({"kind": "spacetime-changes-tensor", "tensor": n})
                except (KeyError, model.ModelUnsupported):
                    pass
            if o2.ex.update_count != ex.update_count:
                probs.append({"kind": "spacetime-changes-update-count",
                              "with": ex.update_count, "without": o2.ex.update_count})
        elif o2.status == "exec-error":
            pass
        out.problems.extend(probs)
    elif out.status == "exec-error":
        # does the program also fail without spacetime?  then it is not a C16 matter
        ref = GS.without_spacetime(spec)
        o2 = C.evaluate(C.Case(ref, cs.extents, cs.inputs, cs.scalars), monitors=())
        if o2.status == "exec-error":
            st.bump("monitor", "fails-without-spacetime-too")
    st.account(ID, cs, out, lambda s, p: classify(s, p, cs.extents))


def shard(tier, seed, shard, nshards):
    st = common.Stats()
    n = N[tier] // nshards
    for i in range(n):
        rnd = random.Random("%s-%d-%d-%d" % (ID, seed, shard, i))
        spec = GS.gen_spacetime(rnd)
        if spec is None:
            st.bump("status", "generator-gave-up")
            continue
        run_one(st, spec, rnd, getattr(spec, "_extents", None))
    return st.result()


def replay(v):
    cs = C.Case.from_json(v["case"])
    st = common.Stats()
    run_one(st, cs.spec, random.Random(0), cs.extents)
    return st.violations


def finalize(results, counters, tier, seed):
    inc = []
    mon = counters.get("monitor", {})
    if counters.get("status", {}).get("ok", 0) < N[tier] // 4:
        inc.append("too few executed cases: %r" % counters.get("status"))
    if mon.get("activities", 0) == 0 or mon.get("canvases", 0) == 0:
        inc.append("no canvas activity observed")
    miss = [s for s in ("st-coord", "st-slip", "st-space", "st-all-stamped",
                        "st-shape", "st-occupancy", "st-flatten", "st-affine", "st-cascade")
            if counters.get("strata_ok", {}).get(s, 0) == 0]
    if miss:
        inc.append("strata never executed: %r" % miss)
    cov = {"rule": "C01-C05 class specs (levels ordered) x random space/time split of the loop ranks "
                   "x style (default/pos/coord; coord never on flattened ranks) x slip on/off (5% "
                   "with one loop rank left unstamped: the compiler refuses those with a KeyError, "
                   "counted as compiler_crash, no program); non-trivial = accepted, all loops iterated, "
                   ">=1 update"}
    return cov, common.MODEL_ASSUMPTIONS + [
        "createCanvas/addActivity/displayCanvas are recording stand-ins"], inc
