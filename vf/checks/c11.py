"""C11 - metrics instrumentation does not change what is computed.  Oracle:
tensors of the metrics-mode program (recording, inert stand-ins) == tensors of
the plain-mode program of the same Einsum/mapping == dense evaluation."""
import random

from .. import case as C, run, model
from ..gen import arch as GA
from . import common, mcommon

ID = "C11"
NEEDS_MODEL = True
LEVEL = "exploration"
N = {"quick": 800, "thorough": 24000}


def classify(spec, problems):
    from .. import kf
    return mcommon.kf6(spec, problems) or kf.classify_name_error(spec, problems)


def run_one(st, spec, cs):
    compiled = run.compile_yaml(spec.yaml(), "metrics")
    if not compiled.ok and mcommon.refusal(compiled):
        compiled.etype = "ValueError"
    out = C.evaluate(cs, compiled=compiled)
    if compiled.ok:
        from ..monitors import order
        ip, n = order.intersection_operands(compiled.text)
        st.bump("monitor", "intersection-calls-in-text", n)
        out.problems.extend(ip)
    if out.status == "ok":
        st.bump("monitor", "metrics-runs")
        ref = GA.plain_of(spec)
        o2 = C.evaluate(C.Case(ref, cs.extents, cs.inputs, cs.scalars, "plain"), monitors=())
        if o2.status == "ok":
            st.bump("monitor", "plain-runs")
            for e in spec.exprs:
                n = e.out.name
                try:
                    a, _ = run.output_of(out.ex, spec, n)
                    b, _ = run.output_of(o2.ex, ref, n)
                    if a.getRankIds() != b.getRankIds() or a.toDict() != b.toDict():
                        out.problems.append({"kind": "differs-from-plain", "tensor": n})
                except (KeyError, model.ModelUnsupported):
                    pass
        else:
            st.bump("monitor", "plain-" + str(o2.status))
        for k in ("intersection", "isect_new", "beginCollect", "fiber_trace"):
            st.bump("monitor", "ev-" + k, out.ex.rec.counts.get(k, 0))
    st.account(ID, cs, out, classify, mode_key="metrics")


def shard(tier, seed, shard, nshards):
    st = common.Stats()
    if shard == 0:
        for s in mcommon.accel_specs():
            for rep in range(2 if tier == "quick" else 6):
                rnd = random.Random("%s-accel-%d-%d" % (ID, seed, rep))
                run_one(st, s, mcommon.make_accel_case(s.clone(), rnd))
    for i in range(N[tier] // nshards):
        spec, rnd = mcommon.gen_item(ID, seed, shard, i)
        run_one(st, spec, C.make_case(spec, rnd, lo=2, hi=5, mode="metrics",
                                      extents=getattr(spec, "_extents", None)))
    return st.result()


def replay(v):
    cs = C.Case.from_json(v["case"])
    st = common.Stats()
    run_one(st, cs.spec, cs)
    return st.violations


def finalize(results, counters, tier, seed):
    inc = []
    mon = counters.get("monitor", {})
    if mon.get("metrics-runs", 0) < N[tier] // 4:
        inc.append("too few metrics-mode runs: %r" % counters.get("status"))
    if mon.get("plain-runs", 0) == 0:
        inc.append("no differential plain run")
    miss = [s for s in ("m-partitioned", "m-part-occ-two-level", "m-merger-dynamic", "m-merger-static", "m-reread-partitioned", "m-eager-two-roots", "m-lf-same-rank-different-leaders", "m-multi-rank-intersector", "m-leader-follower", "m-two-finger", "m-skip-ahead", "m-sequencer",
                        "m-three-level", "m-eager", "m-einsums2", "m-einsums3", "accel-gamma",
                        "accel-extensor", "accel-sigma", "accel-outerspace")
            if counters.get("strata_compiled", {}).get(s, 0) == 0]
    if miss:
        inc.append("strata never executed: %r" % miss)
    if mon.get("ev-intersection", 0) == 0:
        inc.append("leader-follower Fiber.intersection never executed")
    cov = {"rule": "generated full specs (1-3 product Einsums, 1-2 configurations, DRAM + optional "
                   "L2 + buffet/cache under PE[0..n], lazy/eager buffet bindings, each intersector "
                   "type, sequencers, mul/add compute, per-rank formats, spacetime) + the 5 "
                   "accelerator specs; ValueError/NotImplementedError = refused; non-trivial = "
                   "accepted, all loops iterated, >=1 update"}
    return cov, common.MODEL_ASSUMPTIONS + [
        "Fiber.intersection(f1..fn, style=...) yields payloads nested in ARGUMENT order",
        "Metrics/Traffic/Format/Compute/*Intersector are inert recording stand-ins"], inc
