"""Shared corpus: one seeded spec from any of the legal classes named by the
properties (C01-C05 plain classes, C16 spacetime, C11 metrics)."""
import os
import random

from .gen import einsum as GE, mapping as GM, affine as GA, cascade as GC

CLASSES = ["plain", "shape", "occupancy", "flatten", "affine", "cascade", "spacetime", "metrics"]


def make(cls, rnd, variant=None):
    """Returns (spec, mode, extents or None) or None if the generator gave up."""
    if cls == "plain":
        s, info = GE.gen_plain(rnd)
        return s, "plain", None
    if cls == "shape":
        b, info = GE.gen_plain(rnd, max_ranks=3)
        return GM.add_shape_partitioning(rnd, b, info), "plain", None
    if cls in ("occupancy", "flatten"):
        for _ in range(20):
            b, info = GE.gen_plain(rnd, products_only=True, allow_take=False, max_ranks=3)
            s = (GM.add_occupancy if cls == "occupancy" else GM.add_flatten)(rnd, b, info)
            if s is not None:
                return s, "plain", None
        return None
    if cls == "affine2d":
        for _ in range(40):
            s, ext, info = GA.gen_affine(rnd, "S2")
            if "both-dims-partitioned" in s.tags:
                return s, "plain", ext
        return None
    if cls == "reread":
        r = GC.gen_reread(rnd)
        return (r, "plain", None) if r is not None else None
    if cls == "rewrite":
        return GC.gen_rewrite(rnd), "plain", None
    if cls == "affine-cascade":
        s = GC.gen_affine_cascade(rnd)
        return s, "plain", s._extents
    if cls == "flatten3":
        return GM.gen_flatten3_discordant(rnd), "plain", None
    if cls == "flatten-lookup":
        return GM.gen_flatten_lookup(rnd), "plain", None
    if cls == "dynflatten2":
        return GM.gen_two_dynamic_flattens(rnd), "plain", None
    if cls == "occ-then-shape":
        return GM.gen_occ_then_shape(rnd), "plain", None
    if cls == "double-flatten":
        for _ in range(60):
            b, info = GE.gen_plain(rnd, products_only=True, allow_take=False, max_ranks=4)
            s = GM.add_double_flatten(rnd, b, info)
            if s is not None:
                return s, "plain", None
        return None
    if cls == "occupancy2":
        # several occupancy-partitioned ranks, two levels each
        for _ in range(40):
            b, info = GE.gen_plain(rnd, products_only=True, allow_take=False, max_ranks=3)
            s = GM.add_occupancy(rnd, b, info, force="two-level")
            if s is not None and len((s.partitioning or {}).get("Z", {})) >= 2:
                return s, "plain", None
        return None
    if cls == "affine":
        s, ext, info = GA.gen_affine(rnd)
        return s, "plain", ext
    if cls == "cascade":
        if rnd.random() < 0.2:
            r = GC.gen_reread(rnd)
            if r is not None:
                return r, "plain", None
        return GC.gen_cascade(rnd), "plain", None
    if cls == "spacetime":
        from .gen import spacetime as GS
        r = GS.gen_spacetime(rnd)
        if r is None:
            return None
        return r, "plain", getattr(r, "_extents", None)
    if cls == "metrics":
        from .gen import arch as GR
        r = GR.gen_metrics(rnd, force=variant)
        if r is None:
            return None
        if rnd.random() < 0.08:
            # a Windows-style trace prefix: backslashes reach string literals of the program
            r.extra = r.extra.replace("prefix: tmp/", "prefix: out\\new_")
            r.tags = list(r.tags) + ["m-prefix-with-backslash"]
        return r, "metrics", getattr(r, "_extents", None)
    raise ValueError(cls)


def available_classes():
    out = ["plain", "shape", "occupancy", "flatten", "affine", "cascade"]
    here = os.path.dirname(os.path.abspath(__file__))
    if os.path.exists(os.path.join(here, "gen", "spacetime.py")):
        out.append("spacetime")
    if os.path.exists(os.path.join(here, "gen", "arch.py")):
        out.append("metrics")
    return out


def item(pid, seed, shard, i, classes=None):
    classes = classes or available_classes()
    rnd = random.Random("%s-corpus-%d-%d-%d" % (pid, seed, shard, i))
    cls = classes[i % len(classes)]
    variant = None
    if cls == "metrics":
        from .checks import mcommon
        variant = mcommon.VARIANTS[(i // len(classes) * 5 + shard * 7 + i) % len(mcommon.VARIANTS)]
    r = make(cls, rnd, variant)
    if r is None:
        return None
    spec, mode, ext = r
    return cls, spec, mode, ext, rnd


def repo_yaml_corpus(repo):
    """Every YAML in tests/integration as (name, text, mode)."""
    import glob
    out = []
    for p in sorted(glob.glob(os.path.join(repo, "tests", "integration", "*.yaml"))):
        y = open(p).read()
        n = os.path.basename(p)[:-5]
        mode = "metrics" if ("architecture:" in y and "bindings:" in y and "format:" in y) else "plain"
        out.append((n, y, mode))
    return out
