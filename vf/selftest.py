"""Algebraic self-tests of the reference model alone (no /repo code)."""
import random
import sys

from . import model as ft


def rand_tensor(rnd, ranks, ext=5, density=0.6):
    import itertools
    d = {}
    for cs in itertools.product(*[range(ext) for _ in ranks]):
        if rnd.random() < density:
            d[cs] = rnd.randint(1, 9)
    return ft.Tensor.fromDict(list(ranks), d, "T"), d


def main(n=300):
    rnd = random.Random(1)
    fails = 0
    for i in range(n):
        k = rnd.randint(1, 3)
        ranks = ["A", "B", "C"][:k]
        t, d = rand_tensor(rnd, ranks)
        assert t.toDict() == d, "fromDict/toDict"
        # swizzle round trip
        p = list(ranks)
        rnd.shuffle(p)
        s = t.swizzleRanks(p).swizzleRanks(ranks)
        assert s.toDict() == d, "swizzle round trip"
        # split + merge = id (any depth, halo 0)
        depth = rnd.randrange(k)
        step = rnd.randint(1, 6)
        sp = t.splitUniform(step, depth=depth)
        assert len(sp.getRankIds()) == k + 1
        assert sp.mergeRanks(depth=depth, levels=1).toDict() == d, "splitUniform/merge"
        se = t.splitEqual(rnd.randint(1, 4), depth=depth)
        assert se.mergeRanks(depth=depth, levels=1).toDict() == d, "splitEqual/merge"
        # split with halo duplicates elements; upper coords multiples of step
        sh = t.splitUniform(step, depth=0, post_halo=2)
        for uc, lower in zip(sh.root.coords, sh.root.payloads):
            assert uc % step == 0
            for c in lower.coords:
                assert uc <= c < uc + step + 2
        # flatten / unflatten
        if k >= 2:
            f = t.flattenRanks(depth=0, levels=1)
            u = f.unflattenRanks(depth=0, levels=1)
            assert u.toDict() == d, "flatten/unflatten"
        # intersection / union vs set algebra (1-D)
        a, da = rand_tensor(rnd, ["A"])
        b, db = rand_tensor(rnd, ["A"])
        inter = {c for c, _ in (a.root & b.root)}
        assert inter == {c[0] for c in da} & {c[0] for c in db}
        uni = [(c, m) for c, (m, _, _) in (a.root | b.root)]
        assert {c for c, _ in uni} == {c[0] for c in da} | {c[0] for c in db}
        for c, m in uni:
            assert m == ("AB" if (c,) in da and (c,) in db else "A" if (c,) in da else "B")
        z = ft.Tensor(rank_ids=["A"], name="Z")
        for c, (zr, av) in z.root << a.root:
            zr += av
        assert z.toDict() == da, "populate"
    print("model self-tests: %d rounds ok" % n)
    return 0


if __name__ == "__main__":
    sys.exit(main())
