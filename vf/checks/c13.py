"""C13 - fusion blocks are a legal, ordered partition of the Einsums.

Events: Fusion.get_blocks() of the real translator (fed by real
Program/Hardware objects while HiFiber compiles each generated history) and
the metrics["blocks"] value the emitted dump computes when executed.
Oracle (vf/monitors/timemodel.check_blocks): the blocks concatenate to the
Einsum list in order; every PAIR of Einsums sharing a block has the same
configuration, the same temporal loop ranks ahead of the first spatial rank,
and disjoint sets of bound functional components - all three computed from the
specification text by an independent reader.  Only the stated direction is
checked: not fusing is never a violation."""
import random

from .. import case as C, run
from ..monitors import timemodel
from ..gen import arch as GA
from ..spec import Acc, Term, Einsum, Spec
from . import common, mcommon

ID = "C13"
NEEDS_MODEL = False
LEVEL = "exploration"
N = {"quick": 1280, "thorough": 100000}


def gen_history(rnd):
    """2-6 Einsums over one rank list, 1-3 configurations, random space/time
    splits and binding sets; built so that the shared component is often the
    ONLY reason not to fuse."""
    n = rnd.randint(2, 6)
    nconf = rnd.choice([1, 1, 2, 3])
    ranks = rnd.sample(["M", "N", "K"], rnd.randint(1, 3))
    decl = {}
    exprs = []
    prev = None
    # Einsums whose temporal ranks SPELL the same string as their neighbours' without being
    # the same ranks: a rank literally named "MK" beside ranks M, K; or (M, K) flattened
    merged = {}           # Einsum index -> ("literal" | "flatten", r1, r2)
    if len(ranks) >= 2 and rnd.random() < 0.3:
        for i in range(n):
            if rnd.random() < 0.4:
                r1, r2 = ranks[0], ranks[1]
                merged[i] = (rnd.choice(["literal", "flatten"]), r1, r2)
    for i in range(n):
        out = "T%d" % i
        a = "A%d" % i
        if i in merged and merged[i][0] == "literal":
            _, r1, r2 = merged[i]
            rs = [r1 + r2] + list(ranks[2:])
            decl[a] = list(rs)
            decl[out] = list(rs)
            exprs.append(Einsum(Acc(out, [[(1, r.lower())] for r in rs]),
                                [Term("times", [Acc(a, [[(1, r.lower())] for r in rs])])]))
            prev = None
            continue
        decl[a] = list(ranks)
        fs = [Acc(a, [[(1, r.lower())] for r in ranks])]
        if prev and rnd.random() < 0.7:
            fs.append(Acc(prev, [[(1, r.lower())] for r in decl[prev]]))
        ors = list(ranks)
        if i in merged:
            # the output may hold only one of the flattened ranks
            ors = [r for r in ranks if r != merged[i][2]]
        decl[out] = ors
        exprs.append(Einsum(Acc(out, [[(1, r.lower())] for r in ors]), [Term("times", fs)]))
        prev = out
    # few distinct loop orders and space/time splits so that prefixes often coincide
    orders = [list(ranks)]
    if len(ranks) > 1 and rnd.random() < 0.5:
        o2 = list(ranks)
        rnd.shuffle(o2)
        orders.append(o2)
    splits = []
    for _ in range(rnd.choice([1, 1, 2, 3])):
        k = rnd.randint(0, len(ranks))
        splits.append(k if rnd.random() < 0.7 else len(ranks))
    arch = ["architecture:"]
    comp_names = {}
    for c in range(nconf):
        arch += ["  cfg%d:" % c, "  - name: Sys%d" % c, "    attributes:",
                 "      clock_frequency: %d" % rnd.choice([1000, 2000]), "    local:"]
        names = []
        for j in range(rnd.randint(1, 3)):
            nm = "Mul%d_%d" % (c, j)
            arch += ["    - name: %s" % nm, "      class: compute", "      attributes:",
                     "        type: mul"]
            names.append(nm)
        if rnd.random() < 0.5:
            nm = "Seq%d" % c
            arch += ["    - name: %s" % nm, "      class: Sequencer", "      attributes:",
                     "        num_ranks: 3"]
            names.append(nm)
        comp_names[c] = names
    b = ["bindings:"]
    st = {}
    lo = {}
    cur = rnd.randrange(nconf)
    parts = {}
    for i in range(n):
        out = "T%d" % i
        if rnd.random() < 0.25:
            cur = rnd.randrange(nconf)
        lo_i = rnd.choice(orders)
        if i in merged:
            _, r1, r2 = merged[i]
            lo_i = [r1 + r2] + list(ranks[2:])
            if merged[i][0] == "flatten":
                parts[out] = {"(%s, %s)" % (r1, r2): ["flatten()"]}
        k = rnd.choice(splits)
        time, space = list(lo_i[:k]), list(lo_i[k:])
        k = min(k, len(lo_i))
        time, space = list(lo_i[:k]), list(lo_i[k:])
        if lo_i != list(ranks) or rnd.random() < 0.3:
            lo[out] = list(lo_i)
        if len(time) > 1 and rnd.random() < 0.4:
            rnd.shuffle(time)         # the time LIST may be in any order; the loop order rules
        if len(space) > 1 and rnd.random() < 0.4:
            space = list(space)
            rnd.shuffle(space)        # the space LIST may be in any order too
        st[out] = {"space": list(space), "time": time}
        b += ["  %s:" % out, "  - config: cfg%d" % cur, "    prefix: tmp/%s" % out]
        names = comp_names[cur]
        k = rnd.randint(0, min(2, len(names)))
        for nm in rnd.sample(names, k):
            if nm.startswith("Mul"):
                b += ["  - component: %s" % nm, "    bindings:", "    - op: mul"]
            else:
                b += ["  - component: %s" % nm, "    bindings:", "    - rank: %s" % lo_i[0]]
    fmt = ["format:"]
    for t, rs in decl.items():
        fmt += ["  %s:" % t, "    default:", "      rank-order: [%s]" % ", ".join(rs)]
        for r in rs:
            fmt += ["      %s:" % r, "        format: C", "        pbits: 32"]
    spec = Spec(decl, exprs, loop_order=(lo or None), spacetime=st,
                partitioning=(parts or None),
                extra="\n".join(arch + b + fmt) + "\n",
                tags=["history%d" % n, "configs%d" % nconf] +
                (["ranks-spelling-alike"] if merged else []))
    return spec


def check_spec(st, spec, execute, rnd):
    cs = C.Case(spec, {}, {}, {}, "metrics")
    compiled = run.compile_yaml(spec.yaml(), "metrics")
    out = C.Outcome()
    out.compiled = compiled
    if not compiled.ok:
        if mcommon.refusal(compiled):
            compiled.etype = "ValueError"
        out.status = "rejected" if compiled.rejected else "crash"
        out.message = "%s: %s" % (compiled.etype, compiled.error)
        st.account(ID, cs, out, None, mode_key="metrics")
        return
    out.status = "ok"
    facts = timemodel.einsum_facts(spec)
    blocks = compiled.obj.fusion.get_blocks()
    st.bump("monitor", "histories")
    st.bump("monitor", "blocks", len(blocks))
    st.bump("monitor", "fused-pairs", sum(len(b) * (len(b) - 1) // 2 for b in blocks))
    out.nontrivial = len(facts) >= 2
    probs = timemodel.check_blocks([list(b) for b in blocks], facts)
    # the dump's literal
    if execute:
        cs2 = C.make_case(spec, rnd, lo=2, hi=3, mode="metrics")
        o2 = C.evaluate(cs2, monitors=(), compiled=compiled)
        if o2.status == "ok":
            m = o2.ex.ns.get("metrics") or {}
            st.bump("monitor", "dumps-executed")
            if m.get("blocks") != [list(x) for x in blocks]:
                probs.append({"kind": "dump-blocks-differ-from-fusion-state",
                              "dump": m.get("blocks"), "fusion": blocks})
            probs.extend(timemodel.check_blocks(m.get("blocks") or [], facts))
        cs = cs2
    out.problems = probs
    for t in spec.tags:
        st.bump("strata_ok", t)
    st.account(ID, cs, out, None, mode_key="metrics")


def shard(tier, seed, shard, nshards):
    st = common.Stats()
    if shard == 0:
        for s in mcommon.accel_specs():
            check_spec(st, s, False, random.Random(0))
    n = N[tier] // nshards
    for i in range(n):
        rnd = random.Random("%s-%d-%d-%d" % (ID, seed, shard, i))
        if i % 5 == 4:
            spec = GA.gen_metrics(rnd, n_einsums=rnd.choice([2, 3]))
        else:
            spec = gen_history(rnd)
        check_spec(st, spec, i % 10 == 0, rnd)
    return st.result()


def replay(v):
    cs = C.Case.from_json(v["case"])
    st = common.Stats()
    check_spec(st, cs.spec, True, random.Random(0))
    return st.violations


def finalize(results, counters, tier, seed):
    inc = []
    mon = counters.get("monitor", {})
    if mon.get("histories", 0) < N[tier] // 4:
        inc.append("too few histories: %r" % counters.get("status"))
    if mon.get("fused-pairs", 0) == 0:
        inc.append("no pair of Einsums was ever fused (nothing to check)")
    if mon.get("dumps-executed", 0) == 0:
        inc.append("no dump executed")
    cov = {"rule": "histories of 2-6 Einsums x 1-3 configurations x few space/time splits x random "
                   "functional-component binding sets (the shared component is often the only reason "
                   "not to fuse), plus generated full specs and the accelerator specs; 1 in 10 dumps "
                   "executed to read metrics['blocks']; distinct = distinct spec; non-trivial = "
                   "compiled with >= 2 Einsums",
           "fused_pairs_checked": mon.get("fused-pairs", 0)}
    return cov, ["functional components = compute, intersector, sequencer (the classes the code "
                 "marks functional); a component is bound in an Einsum when it has a non-empty "
                 "binding list there"], inc
