"""Regenerate MANIFEST.json from the check modules present in vf/checks."""
import importlib
import json
import os
import sys

HERE = os.path.dirname(os.path.abspath(__file__))
sys.path.insert(0, HERE)
props = [json.loads(l) for l in open(os.path.join(HERE, "properties.jsonl"))]
BASE = "cd /repo && /venv/bin/python -m pytest -ra -q -p no:cacheprovider --timeout=900 --continue-on-collection-errors"
checks, na = [], []
NA_REASON = {}
for p in props:
    pid = p["id"]
    try:
        mod = importlib.import_module("vf.checks." + pid.lower())
    except ModuleNotFoundError:
        na.append({"property_id": pid, "reason": NA_REASON.get(pid, "check not built yet (work in progress; see DESIGN.md)")})
        continue
    checks.append({
        "property_id": pid,
        "quick_cmd": "/venv/bin/python -m vf.check %s --tier quick" % pid,
        "thorough_cmd": "/venv/bin/python -m vf.check %s --tier thorough" % pid,
        "evidence_file": "/verif/evidence/%s.json" % pid,
        "replay_cmd_template": "/venv/bin/python -m vf.check %s --replay {path}" % pid,
        "engine": "vf",
        "level_claimed": {"category": getattr(mod, "LEVEL", "exploration"),
                          "text": getattr(mod, "LEVEL_TEXT", (mod.__doc__ or "").strip()),
                          "design_ref": "DESIGN.md section 3, " + pid},
        "level_note": getattr(mod, "LEVEL_NOTE", "trusted base: reference HiFiber model (validated against the repository's pinned programs on every run), dense evaluator, CPython; held on the executions observed, not for all inputs"),
        "technique": getattr(mod, "TECHNIQUE", "runtime monitoring: real compiler driven by seeded generated specs; emitted program executed on an instrumented reference model; oracle = independent dense evaluation + event-log monitors"),
    })
m = {"version": 1,
     "setup_cmd": "cd /verif && /venv/bin/python -m vf.setup",
     "hooks": {"guard": "TEAAL_VERIF",
               "enable": "the checks set TEAAL_VERIF=1 themselves and install recording wrappers from the harness (vf/hooks.py); there are no hook commits in /repo",
               "baseline_off_cmd": BASE, "source_commits": [], "add_only": True},
     "engines": [{"name": "vf", "path": "/verif/vf", "serves_properties": [c["property_id"] for c in checks],
                  "kind_free_text": "runtime monitoring harness: seeded spec generators -> real compiler from /repo -> AST-instrumented execution of the emitted program on a reference HiFiber model with recording stand-ins -> online/offline monitors and differential oracles"}],
     "checks": checks, "not_applicable": na,
     "notes": "Every check re-imports teaal from /repo's working tree. Exit 0 held / 1 violation / 2 inconclusive. Known findings: /verif/known_findings.json."}
json.dump(m, open(os.path.join(HERE, "MANIFEST.json"), "w"), indent=1)
print(len(checks), "checks;", len(na), "not applicable")
