"""C10 - statement order respects every data and control dependence.

Events: for the graph the translator ACTUALLY used (recording FlowGraph
subclass bound into teaal.trans.hifiber): graph G, order before hoisting,
order after hoisting.  Oracle: linear extension of G, bracket nesting in loop
order with Body innermost, hoist legality.  Schedules: the topological sort
is replaced by seeded random tie-breaks (any of which networkx may return);
the real hoist and the real translator run on each order and the emitted
program must still be closed (C06 oracle), denote its tree (C09 oracle) and
compute the Einsum (result oracle)."""
import random

from .. import case as C, run, corpus, hooks, kf
from ..monitors import order, scope, treeeq
from . import common

ID = "C10"
NEEDS_MODEL = True
LEVEL = "exploration"
N = {"quick": 640, "thorough": 15000}         # specs
CLASSES = ["plain", "shape", "occupancy", "flatten", "affine", "cascade", "spacetime", "metrics",
           "occupancy2", "metrics", "occupancy", "double-flatten", "affine2d", "reread",
           "flatten-lookup", "rewrite", "affine-cascade", "dynflatten2",
           "occ-then-shape"]
ORDERS = {"quick": 4, "thorough": 8}           # random tie-breaks per spec (+1 real sort)
TECHNIQUE = ("runtime monitoring: recording wrapper on the FlowGraph the translator uses + seeded "
             "random topological tie-breaks (schedule perturbation); offline order checker over "
             "the recorded graph/orders, and closedness/tree/result oracles on each emitted program")


def classify(spec, problems):
    from . import c04, mcommon
    probs = [p for p in problems]
    k = kf.classify_plain(spec, probs) or _kf_static(spec, probs) or mcommon.kf6(spec, probs)
    if k:
        return k
    if any(t in spec.tags for t in ("S1", "S2", "S3", "S4", "S5", "S6", "S8", "S9", "S10", "S11", "S12")):
        return c04.classify(spec, probs)
    return None


def _kf_static(spec, problems):
    for p in problems:
        if p.get("kind") == "unbound-read":
            n = p.get("name")
            if not kf.name_kf(spec, n):
                return None
        else:
            return None
    return "KF-5" if problems else None


def run_one(st, cls, spec, mode, ext, rnd, tier):
    cs = C.make_case(spec, rnd, lo=1, hi=5, extents=ext, mode=mode)
    affine = cls in ("affine", "affine2d")
    for k in range(ORDERS[tier] + 1):
        tb = None if k == 0 else rnd.randrange(1 << 30)
        with hooks.capture_flowgraph(tb) as fl:
            compiled = run.compile_yaml(spec.yaml(), mode)
        out = C.Outcome()
        out.compiled = compiled
        if not compiled.ok:
            out.status = "rejected" if compiled.rejected else "crash"
            out.message = "%s: %s" % (compiled.etype, compiled.error)
            st.account(ID, cs, out, classify, mode_key=str(k))
            if k == 0:
                break
            # an order networkx may legally return made the compiler fail
            if not compiled.rejected:
                st.violations.append(C.violation(ID, cs, [{"kind": "crash-under-tiebreak",
                                                          "error": out.message, "tiebreak": tb}],
                                                 "compiler crashed under a legal topological "
                                                 "order: " + out.message, None,
                                                 {"tiebreak": tb}))
            continue
        if len(fl.records) != len(spec.exprs):
            st.inconclusive.append("flow-graph wrapper saw %d of %d Einsums" % (
                len(fl.records), len(spec.exprs)))
        probs = []
        for rec in fl.records:
            p, s = order.check_record(rec)
            st.bump("monitor", "graphs-checked")
            st.bump("monitor", "graph-nodes", s["nodes"])
            st.bump("monitor", "graph-edges", s["edges"])
            st.bump("monitor", "hoisted-nodes", s["hoisted"])
            probs.extend(p)
        # emitted program under this order
        sp, _ = scope.analyse(compiled.text, scope.supplied_names(spec, mode))
        probs.extend(sp)
        try:
            d, _ = treeeq.compare_stmt(compiled.obj.hifiber, compiled.text)
            if d:
                probs.append(dict(d, kind="tree-text-mismatch"))
        except treeeq.TreeUnsupported:
            pass
        o2 = C.evaluate(cs, monitors=(() if affine else ("result",)), compiled=compiled)
        out.ex = o2.ex
        out.status = "ok"
        out.nontrivial = o2.nontrivial or o2.status != "ok"
        if o2.status == "ok":
            st.bump("monitor", "programs-executed")
            probs.extend(o2.problems)
        elif o2.status == "exec-error":
            static = {p.get("name") for p in sp}
            for p in o2.problems:
                if kf.name_error_name(p.get("error")) not in static:
                    probs.append(p)
        for p in probs:
            p["tiebreak"] = tb
        out.problems = probs
        st.bump("monitor", "orders-" + ("real" if k == 0 else "random"))
        st.account(ID, cs, out, classify, mode_key=str(tb))


def shard(tier, seed, shard, nshards):
    st = common.Stats()
    n = N[tier] // nshards
    if shard == 1:
        common.repo_suite_workload(st, ID, (
            "dependence-violated", "unbalanced-loop-brackets", "body-not-innermost",
            "unclosed-loops", "loops-not-in-loop-order", "hoisted-dependent-node",
            "dependent-before-loop", "posthoist-not-a-permutation"))
    for i in range(n):
        it = corpus.item(ID, seed, shard, i, CLASSES)
        if it is None:
            continue
        cls, spec, mode, ext, rnd = it
        run_one(st, cls, spec, mode, ext, rnd, tier)
    # partition-style twins: the SAME Einsum, tensor names, rank names and loop order compiled
    # back to back in this process, once with a static (shape) and once with a dynamic
    # (occupancy) split of the same rank - same level names, different graphs.  Anything the
    # FlowGraph remembers per (Einsum, loop order) would carry over from one to the other.
    for k in range(6 if tier == "quick" else 60):
        rnd = random.Random("%s-twins-%d-%d-%d" % (ID, seed, shard, k))
        for sp in style_twins(rnd):
            run_one(st, "style-twin", sp, "plain", None, rnd, tier)
    st.counters["hook_calls"] = dict(hooks.CALLS)
    return st.result()


def style_twins(rnd):
    from ..gen import einsum as GE
    for _ in range(40):
        b, info = GE.gen_plain(rnd, products_only=True, allow_take=False, allow_scalar=False,
                               allow_rank0=False, max_ranks=3)
        e = b.exprs[0]
        if len(e.terms) != 1:
            continue
        holders = {}
        for a in e.inputs():
            for r in b.decl[a.name]:
                holders.setdefault(r, []).append(a.name)
        cands = [r for r in info["ranks"] if holders.get(r)]
        if not cands:
            continue
        r = rnd.choice(cands)
        rest = [x for x in info["ranks"] if x != r]
        rnd.shuffle(rest)
        lo = list(rest)
        i1 = rnd.randint(0, len(lo))
        lo.insert(i1, r + "1")
        lo.insert(rnd.randint(i1 + 1, len(lo)), r + "0")
        sz = rnd.randint(2, 4)
        twins = []
        for d in ("uniform_shape(%d)" % sz, "uniform_occupancy(%s.%d)" % (rnd.choice(holders[r]), sz)):
            s = b.clone()
            s.partitioning = {e.out.name: {r: [d]}}
            s.loop_order = {e.out.name: list(lo)}
            s.tags = list(s.tags) + ["style-twin", "partitioned"]
            twins.append(s)
        if rnd.random() < 0.5:
            twins.reverse()
        return twins
    return []


def replay(v):
    cs = C.Case.from_json(v["case"])
    st = common.Stats()
    tbs = sorted({p.get("tiebreak") for p in v.get("problems", [])}, key=str)
    for tb in tbs or [None]:
        with hooks.capture_flowgraph(tb) as fl:
            compiled = run.compile_yaml(cs.spec.yaml(), cs.mode)
        if not compiled.ok:
            continue
        probs = []
        for rec in fl.records:
            probs.extend(order.check_record(rec)[0])
        sp, _ = scope.analyse(compiled.text, scope.supplied_names(cs.spec, cs.mode))
        probs.extend(sp)
        o2 = C.evaluate(cs, monitors=("result",), compiled=compiled)
        probs.extend(o2.problems)
        for p in probs:
            p["tiebreak"] = tb
        if probs:
            out = C.Outcome()
            out.status = "ok"
            out.compiled = compiled
            out.problems = probs
            st.account(ID, cs, out, classify)
    return st.violations


def finalize(results, counters, tier, seed):
    inc = []
    mon = counters.get("monitor", {})
    hc = counters.get("hook_calls", {})
    if hc.get("flow_sort", 0) == 0 or hc.get("flow_hoist", 0) == 0:
        inc.append("FlowGraph wrapper never reached: %r" % hc)
    if mon.get("graphs-checked", 0) < N[tier]:
        inc.append("too few graphs checked: %r" % mon)
    if mon.get("hoisted-nodes", 0) == 0:
        inc.append("no hoisted node was ever observed")
    # only strata whose count is fixed by construction or large for every seed (the single
    # metrics families get 3-4 specs each here and some are refused: C11-C14 require them,
    # with ~47 specs per family; requiring them here made seed 2 inconclusive)
    miss = [t for t in ("occ-with-follower", "flatten-occupancy", "double-flatten",
                        "metrics", "st-coord",
                        "partitioned", "cascade2", "both-dims-partitioned", "reread-input", "style-twin",
                        "flatten-lookup")
            if counters.get("strata_compiled", {}).get(t, 0) == 0]
    if miss:
        inc.append("graph shapes never compiled and executed: %r" % miss)
    cov = {"rule": "shared corpus specs x (the real sort + %d seeded random topological "
                   "tie-breaks); each (spec, order): order checker on the recorded graph, then the "
                   "real translator's output under that order is scope-checked, tree-compared and "
                   "executed; distinct = (spec, tie-break seed); non-trivial = compiled and all "
                   "loops iterated with >=1 update (or the run was not applicable)" % ORDERS[tier],
           "states": mon.get("graph-nodes", 0), "transitions": mon.get("graph-edges", 0)}
    return cov, common.MODEL_ASSUMPTIONS + [
        "any linear extension of the graph is a possible result of networkx.topological_sort "
        "(superset of what hash seeds can produce)"], inc
