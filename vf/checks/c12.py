"""C12 - every trace the metrics dump consumes is produced during collection.

Events: the log of a metrics-mode run on the reference model with recording
stand-ins (beginCollect, trace registrations, <fiber>.trace, loop enter/exit,
endCollect, intersector construction / addTraces(consumeTrace..) / queries,
filterTrace, the `traces` dictionaries handed to buffet/cacheTraffic,
numIters).  Oracle: offline checker vf/monitors/traces.py, per Einsum section.
Workload sharded over processes with different PYTHONHASHSEED values because
registration order differs per seed."""
import random

from .. import case as C, run
from ..monitors import traces
from . import common, mcommon

ID = "C12"
NEEDS_MODEL = True
LEVEL = "exploration"
N = {"quick": 800, "thorough": 24000}
TECHNIQUE = ("runtime monitoring: offline trace-specification checker (produced-before-consumed, "
             "begin/end exactly once, intersector lifecycle) over the recorded event log of "
             "metrics-mode executions; shards run under different PYTHONHASHSEED values")


def shard_env(tier, seed, i, n):
    return {"PYTHONHASHSEED": str((seed * 7 + i) % (4 if tier == "quick" else 16))}


def classify(spec, problems):
    from .. import kf
    return mcommon.kf6(spec, problems) or kf.classify_name_error(spec, problems) or \
        mcommon.kf16(spec, problems)




def run_one(st, spec, cs):
    compiled = run.compile_yaml(spec.yaml(), "metrics")
    if not compiled.ok and mcommon.refusal(compiled):
        compiled.etype = "ValueError"
    out = C.evaluate(cs, monitors=(), compiled=compiled)
    if out.status == "ok":
        ex = out.ex
        if len(ex.rec.events) >= ex.rec.cap:
            st.bump("monitor", "log-truncated")
            out.status = "skipped"
            out.message = "event log truncated"
        else:
            probs, stats = traces.check(ex.rec.events, len(spec.exprs), ex.all_loops_entered())
            for k, v in stats.items():
                st.bump("monitor", k, v)
            st.bump("monitor", "logs-checked")
            st.bump("monitor", "events", len(ex.rec.events))
            if not ex.all_loops_entered():
                st.bump("monitor", "not-all-loops-ran")
            out.problems.extend(probs)
    st.account(ID, cs, out, classify, mode_key="metrics")


def shard(tier, seed, shard, nshards):
    st = common.Stats()
    if shard < 4:
        for s in mcommon.accel_specs():
            rnd = random.Random("%s-accel-%d-%d" % (ID, seed, shard))
            run_one(st, s, mcommon.make_accel_case(s.clone(), rnd))
    for i in range(N[tier] // nshards):
        spec, rnd = mcommon.gen_item(ID, seed, shard, i)
        run_one(st, spec, C.make_case(spec, rnd, lo=2, hi=4, mode="metrics",
                                      density=rnd.choice([0.8, 1.0]),
                                      extents=getattr(spec, "_extents", None)))
    import os
    st.bump("hashseeds", os.environ.get("PYTHONHASHSEED", "?"))
    return st.result()


def replay(v):
    cs = C.Case.from_json(v["case"])
    st = common.Stats()
    run_one(st, cs.spec, cs)
    return st.violations


def finalize(results, counters, tier, seed):
    inc = []
    mon = counters.get("monitor", {})
    if mon.get("logs-checked", 0) < N[tier] // 4:
        inc.append("too few logs checked: %r" % counters.get("status"))
    for k in ("registered", "files_consumed", "consume_pairs", "filters", "intersectors", "fed"):
        if mon.get(k, 0) == 0:
            inc.append("monitor never saw: " + k)
    miss = [s for s in ("m-partitioned", "m-part-occ-two-level", "m-merger-dynamic", "m-lf-same-rank-different-leaders", "m-multi-rank-intersector", "m-eager", "m-sequencer", "m-leader-follower", "m-two-finger",
                        "m-skip-ahead", "m-three-level", "accel-gamma", "accel-extensor-energy")
            if counters.get("strata_compiled", {}).get(s, 0) == 0]
    if miss:
        inc.append("strata never executed: %r" % miss)
    cov = {"rule": "C11's corpus (generated full specs + 5 accelerator specs), dense inputs so "
                   "that loops run; distinct = distinct spec; non-trivial = accepted, all loops "
                   "iterated, >=1 update", "hash_seeds": counters.get("hashseeds")}
    return cov, ["file name scheme <prefix>-<rank>-<type>.csv for Metrics.trace(rank, type_, "
                 "consumable=False) registrations (as the repository's fibertree uses it)",
                 "a registration after the loop nest began does not produce a trace"] + \
        common.MODEL_ASSUMPTIONS[:1], inc
