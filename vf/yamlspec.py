"""Independent reader: YAML text of a TeAAL spec -> vf.spec.Spec.

Used for the repository's own YAML files (goldens, accelerator specs, seeded
demonstrations).  It does not use the compiler's parsers: expressions are read
with a small hand-written tokenizer."""
import re

from ruamel.yaml import YAML

from .spec import Acc, Term, Einsum, Spec


def _split_top(s, sep):
    parts, depth, cur = [], 0, ""
    for ch in s:
        if ch in "[(":
            depth += 1
        elif ch in "])":
            depth -= 1
        if ch == sep and depth == 0:
            parts.append(cur)
            cur = ""
        else:
            cur += ch
    parts.append(cur)
    return parts


def _parse_idx(t):
    out = []
    for term in t.split("+"):
        term = term.strip()
        if "*" in term:
            a, b = term.split("*")
            out.append((int(a.replace(" ", "")), b.strip()))
        else:
            out.append((1, term))
    return out


def _parse_acc(s):
    m = re.match(r"\s*(\w+)\s*\[(.*)\]\s*$", s)
    if not m:
        raise ValueError("bad access " + s)
    name = m.group(1)
    inner = m.group(2).strip()
    idx = [_parse_idx(x) for x in inner.split(",")] if inner else []
    return Acc(name, idx)


def _parse_factor(f):
    f = f.strip()
    return _parse_acc(f) if "[" in f else f


def parse_expr(e):
    lhs, rhs = e.split("=", 1)
    out = _parse_acc(lhs)
    terms = []
    for p in _split_top(rhs, "+"):
        p = p.strip()
        if p.startswith("take("):
            fs = _split_top(p[5:-1], ",")
            sel = int(fs[-1])
            terms.append(Term("take", [_parse_factor(f) for f in fs[:-1]], sel))
        else:
            terms.append(Term("times", [_parse_factor(f) for f in _split_top(p, "*")]))
    return Einsum(out, terms)


def spec_from_yaml(text, keep_extra=True):
    d = YAML(typ="safe", pure=True).load(text)
    decl = {k: list(v) for k, v in d["einsum"]["declaration"].items()}
    exprs = [parse_expr(e) for e in d["einsum"]["expressions"]]
    m = d.get("mapping") or {}
    ro = m.get("rank-order")
    lo = m.get("loop-order")
    pt = m.get("partitioning")
    st = m.get("spacetime")
    if pt is not None:
        pt = {o: ({str(k): [str(x) for x in v] for k, v in (ps or {}).items()})
              for o, ps in pt.items()}
    if st is not None:
        st = {o: {"space": [str(x) for x in v["space"]], "time": [str(x) for x in v["time"]],
                  "opt": v.get("opt")} for o, v in st.items()}
    extra = ""
    if keep_extra:
        # keep architecture / bindings / format text verbatim
        lines = text.splitlines()
        keep = False
        buf = []
        for ln in lines:
            mm = re.match(r"^(\w[\w-]*):", ln)
            if mm:
                keep = mm.group(1) in ("architecture", "bindings", "format")
            if keep:
                buf.append(ln)
        if buf:
            extra = "\n".join(buf) + "\n"
    return Spec(decl, exprs, ro, pt, lo, st, extra)


def symbolic_sizes(spec):
    """Names used as sizes in partitioning directives (must be supplied)."""
    out = []
    for ps in (spec.partitioning or {}).values():
        for ds in ps.values():
            for dct in ds:
                m = re.match(r"\s*(uniform_shape|nway_shape)\(\s*([A-Za-z_]\w*)\s*\)", dct)
                if m and m.group(2) not in out:
                    out.append(m.group(2))
                m = re.match(r"\s*uniform_occupancy\(\s*\w+\s*\.\s*([A-Za-z_]\w*)\s*\)", dct)
                if m and m.group(1) not in out:
                    out.append(m.group(1))
    return out
