"""Mechanism predicates for the known findings listed in
/verif/known_findings.json.  A predicate decides whether ONE observed
violation is explained by a recorded defect; it is deliberately narrow so
that a different violation of the same property is still reported."""
import re


def _einsum_for(spec, rank):
    return spec.exprs


def output_only_ranks(spec, e):
    ins = set()
    for a in e.inputs():
        ins.update(spec.decl[a.name])
    return [r for r in spec.decl[e.out.name] if r not in ins]


def _shape_partitioned(spec, e, rank):
    ps = (spec.partitioning or {}).get(e.out.name) or {}
    ds = ps.get(rank)
    return bool(ds) and all(d.startswith(("uniform_shape", "nway_shape")) for d in ds)


def name_error_name(msg):
    m = re.search(r"name '([^']+)' is not defined", msg or "")
    return m.group(1) if m else None


def kf5_unbound_level_size(spec, name):
    """KF-5: iterating an output-only, shape-partitioned rank emits the size of
    the partition level as a variable <RANK><level> that nothing binds."""
    m = re.match(r"^([A-Z]+?)(\d+)$", name or "")
    if not m or name in spec.syms:
        return False
    rank = m.group(1)
    for e in spec.exprs:
        if rank in output_only_ranks(spec, e) and _shape_partitioned(spec, e, rank):
            return True
    return False


def kf7_unbound_offset(spec, name):
    """KF-7: an output-only, shape-partitioned rank whose levels are looped out
    of order reads the enclosing level's coordinate variable before (outside)
    the loop that binds it."""
    m = re.match(r"^([a-z]+?)(\d+)$", name or "")
    if not m:
        return False
    rank, lvl = m.group(1).upper(), int(m.group(2))
    for e in spec.exprs:
        if rank in output_only_ranks(spec, e) and _shape_partitioned(spec, e, rank):
            lo = (spec.loop_order or {}).get(e.out.name)
            if not lo:
                continue
            mine = [r for r in lo if re.match("^" + rank + r"\d+$", r)]
            want = sorted(mine, key=lambda r: -int(r[len(rank):]))
            if mine != want:
                return True
    return False


def classify_name_error(spec, problems):
    """Shared by every check that executes programs: map a NameError to KF-5 /
    KF-7 when (and only when) the mechanism matches."""
    for p in problems:
        if p.get("kind") == "exec-error" and p.get("etype") in ("NameError", "UnboundLocalError"):
            n = name_error_name(p.get("error"))
            if kf5_unbound_level_size(spec, n):
                return "KF-5"
            if kf7_unbound_offset(spec, n):
                return "KF-7"
    return None


def kf1_take_in_sum(spec, problems):
    """KF-1: take() inside a multi-term sum over-contributes.  Only
    over-contribution (values too large / extra elements with positive data)
    is explained; a missing or too-small element is not."""
    if "take-in-sum" not in spec.tags:
        has = any(len(e.terms) > 1 and any(t.kind == "take" for t in e.terms) for e in spec.exprs)
        if not has:
            return None
    ok = False
    for p in problems:
        if p.get("kind") == "value-mismatch":
            if p.get("n_missing") or p.get("n_under"):
                return None
            ok = True
        elif p.get("kind") in ("differs-from-unpartitioned",):
            continue
        else:
            return None
    return "KF-1" if ok else None
