"""C13 / C14 reference models, computed from the YAML text with an independent
reader (ruamel only; nothing from /repo)."""
import re

from ruamel.yaml import YAML

FUNCTIONAL = {"compute", "intersector", "sequencer"}


def arch_table(y):
    """{config: {"freq": f, "components": {name: {"class", "inst", "bandwidth"}}}}"""
    d = YAML(typ="safe", pure=True).load(y)
    out = {}
    for cname, roots in (d.get("architecture") or {}).items():
        comps = {}
        freq = (roots[0].get("attributes") or {}).get("clock_frequency")

        def walk(level):
            m = re.match(r"^\s*(\w+)\s*(?:\[0\.\.\s*(\d+)\s*\])?\s*$", str(level["name"]))
            inst = int(m.group(2)) + 1 if m and m.group(2) is not None else 1
            for c in level.get("local") or []:
                a = c.get("attributes") or {}
                comps[c["name"]] = {"class": str(c["class"]).lower(), "inst": inst,
                                    "bandwidth": a.get("bandwidth")}
            for s in level.get("subtree") or []:
                walk(s)
        for r in roots:
            walk(r)
        out[cname] = {"freq": freq, "components": comps}
    return out


def bindings_table(y):
    """{einsum: {"config": c, "components": {name: [bindings]}}} in program order"""
    d = YAML(typ="safe", pure=True).load(y)
    out = {}
    for e, items in (d.get("bindings") or {}).items():
        ent = {"config": None, "components": {}}
        for it in items or []:
            if "config" in it:
                ent["config"] = it["config"]
            else:
                ent["components"][it["component"]] = it.get("bindings") or []
        out[e] = ent
    return out


def temporal_prefix(loop_order, space):
    """The loop ranks ahead of the first spatial rank IN LOOP ORDER (the space list, like the
    time list, may be written in any order)."""
    idx = [loop_order.index(r) for r in space if r in loop_order]
    if idx:
        return list(loop_order[:min(idx)])
    return list(loop_order)


def einsum_facts(spec):
    """Per Einsum (program order): config, temporal prefix, bound functional
    components - from the spec text alone."""
    from . import defaults as D
    y = spec.yaml()
    arch = arch_table(y)
    binds = bindings_table(y)
    facts = []
    for e in spec.exprs:
        n = e.out.name
        b = binds.get(n) or {"config": None, "components": {}}
        lo = (spec.loop_order or {}).get(n) or D.default_loop_order(spec, e)
        st = (spec.spacetime or {}).get(n) or {"space": [], "time": []}
        space = [re.sub(r"\.(pos|coord)$", "", s) for s in st["space"]]
        comps = (arch.get(b["config"]) or {"components": {}})["components"]
        fun = sorted(c for c, bl in b["components"].items()
                     if bl and comps.get(c, {}).get("class") in FUNCTIONAL)
        facts.append({"einsum": n, "config": b["config"], "prefix": temporal_prefix(lo, space),
                      "functional": fun})
    return facts


def check_blocks(blocks, facts):
    """C13: blocks is the reported list of lists.  Only the stated direction
    (share a block ONLY IF ...) plus the partition/order/contiguity clauses."""
    problems = []
    names = [f["einsum"] for f in facts]
    flat = [e for b in blocks for e in b]
    if flat != names:
        problems.append({"kind": "blocks-not-an-ordered-partition", "blocks": blocks,
                         "einsums": names})
        return problems
    if any(len(b) == 0 for b in blocks):
        problems.append({"kind": "empty-block", "blocks": blocks})
    by = {f["einsum"]: f for f in facts}
    for b in blocks:
        for i in range(len(b)):
            for j in range(i + 1, len(b)):
                x, y = by[b[i]], by[b[j]]
                if x["config"] != y["config"]:
                    problems.append({"kind": "block-mixes-configurations", "pair": [b[i], b[j]],
                                     "configs": [x["config"], y["config"]]})
                if x["prefix"] != y["prefix"]:
                    problems.append({"kind": "block-mixes-temporal-prefixes", "pair": [b[i], b[j]],
                                     "prefixes": [x["prefix"], y["prefix"]]})
                sh = sorted(set(x["functional"]) & set(y["functional"]))
                if sh:
                    problems.append({"kind": "block-shares-functional-component",
                                     "pair": [b[i], b[j]], "components": sh})
    return problems


def _leaf_sum(d, einsum, is_memory):
    """Sum of the counts stored under metrics[e][c] (everything but 'time')."""
    total = 0
    for k, v in d.items():
        if k == "time":
            continue
        if isinstance(v, dict):
            # memory: {tensor: {"read": n, "write": n}}; write counts for the output only
            total += v.get("read", 0)
            if k == einsum:
                total += v.get("write", 0)
        elif isinstance(v, (int, float)):
            total += v
    return total


def check_times(metrics, spec, facts):
    """C14 (i): every metrics[e][c]["time"] == count / (freq-or-bandwidth x
    instances); (ii) metrics["time"] == sum over blocks of max over components
    of the component's time summed over the block's Einsums, from ALL time
    entries present."""
    problems = []
    stats = {"times_checked": 0, "blocks": 0, "components_in_rollup": 0}
    arch = arch_table(spec.yaml())
    by = {f["einsum"]: f for f in facts}
    for e, f in by.items():
        if e not in metrics:
            problems.append({"kind": "einsum-missing-from-metrics", "einsum": e})
            continue
        conf = arch.get(f["config"]) or {"freq": None, "components": {}}
        for c, d in metrics[e].items():
            if not isinstance(d, dict) or "time" not in d:
                continue
            info = conf["components"].get(c)
            if info is None:
                problems.append({"kind": "timed-component-not-in-configuration", "einsum": e,
                                 "component": c})
                continue
            mem = info["class"] in ("dram", "buffet", "cache")
            rate = info["bandwidth"] if mem else conf["freq"]
            count = _leaf_sum(d, e, mem)
            want = count / (rate * info["inst"])
            stats["times_checked"] += 1
            if abs(d["time"] - want) > 1e-12 * max(1.0, abs(want)):
                problems.append({"kind": "component-time", "einsum": e, "component": c,
                                 "got": d["time"], "want": want, "count": count, "rate": rate,
                                 "instances": info["inst"]})
    blocks = metrics.get("blocks")
    if not isinstance(blocks, list):
        problems.append({"kind": "no-blocks-in-metrics"})
        return problems, stats
    total = 0
    for b in blocks:
        stats["blocks"] += 1
        comp = {}
        for e in b:
            for c, d in (metrics.get(e) or {}).items():
                if isinstance(d, dict) and "time" in d:
                    comp[c] = comp.get(c, 0) + d["time"]
        stats["components_in_rollup"] += len(comp)
        total += max(comp.values()) if comp else 0
    got = metrics.get("time")
    if got is None or abs(got - total) > 1e-12 * max(1.0, abs(total)):
        problems.append({"kind": "total-time-is-not-the-rollup", "got": got, "want": total,
                         "blocks": blocks})
    return problems, stats
