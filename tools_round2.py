"""Verify round-2 seeded changes (/tmp/seed2) and store the valid ones as
/verif/seeded/<prop>-<3|4>/."""
import json, os, shutil, sys, queue
from concurrent.futures import ThreadPoolExecutor
sys.path.insert(0, "/verif")
import tools_seeded as T

def main():
    nslots = 6
    T.sh("mkdir -p /tmp/wtv")
    for s in range(nslots):
        if not os.path.isdir("/tmp/wtv/%d" % s):
            T.sh("git -C /repo worktree add -q --detach /tmp/wtv/%d HEAD" % s)
    jobs = [("C%02d" % i, n) for i in range(1, 20) for n in (1, 2)
            if os.path.exists("/tmp/seed2/C%02d/patch%d.diff" % (i, n)) and
            not os.path.exists("/verif/seeded/C%02d-%d/meta.json" % (i, n + 2))]
    q = queue.Queue()
    for s in range(nslots):
        q.put(s)
    def run(job):
        s = q.get()
        try:
            return job, T.verify(job[0], job[1], s, "/tmp/seed2")
        finally:
            q.put(s)
    ver = json.load(open("/verif/seeded/verification.json"))
    with ThreadPoolExecutor(nslots) as ex:
        for (pid, n), r in ex.map(run, jobs):
            if not r:
                continue
            print(pid, n + 2, "valid" if r.get("valid") else "INVALID",
                  {k: r.get(k) for k in ("applies", "tests_rc", "demo_clean_rc", "demo_patched_rc")}, flush=True)
            r["n"] = n + 2
            ver = [v for v in ver if (v["property"], v["n"]) != (pid, n + 2)] + [r]
            if r.get("valid"):
                d = "/verif/seeded/%s-%d" % (pid, n + 2)
                os.makedirs(d, exist_ok=True)
                shutil.copy("/tmp/seed2/%s/patch%d.diff" % (pid, n), d + "/patch.diff")
                shutil.copy("/tmp/seed2/%s/demo%d.py" % (pid, n), d + "/demo.py")
                notes = "/tmp/seed2/%s/notes%d.md" % (pid, n)
                needs = "see notes.md"
                if os.path.exists(notes):
                    shutil.copy(notes, d + "/notes.md")
                meta = {"id": "%s-%d" % (pid, n + 2), "breaks_property": pid, "round": 2,
                        "needs_to_manifest": needs,
                        "origin": "round 2: independent sub-agent given the property text, a scratch worktree and a one-line list of the round-1 changes to avoid",
                        "verified": {"how": "tools_round2.py in a scratch git worktree of /repo",
                                     "patch_applies": r["applies"], "test_suite_with_patch": r["tests_tail"],
                                     "demo_on_clean_tree_exit": r["demo_clean_rc"],
                                     "demo_with_patch_exit": r["demo_patched_rc"]},
                        "commands": ["git -C <worktree> apply patch.diff",
                                     "PYTHONPATH=<worktree> /venv/bin/python -m pytest -q -p no:cacheprovider",
                                     "PYTHONPATH=<worktree> /venv/bin/python demo.py"]}
                json.dump(meta, open(d + "/meta.json", "w"), indent=1)
    json.dump(ver, open("/verif/seeded/verification.json", "w"), indent=1)
    for s in range(nslots):
        T.sh("git -C /repo worktree remove --force /tmp/wtv/%d" % s)

if __name__ == "__main__":
    main()
