"""C01 - generated loop nest computes the Einsum for every loop order and
rank order.  Oracle: emitted program on the reference model == independent
dense evaluation."""
import random

from .. import case as C
from ..gen import einsum as G
from . import common
from .. import kf

ID = "C01"
NEEDS_MODEL = True
LEVEL = "exploration"
N = {"quick": 4800, "thorough": 100000}
STRATA = [None, None, None, "union3", "take3", "rank0", "reduce0", "contracted-outer",
          "broadcast", "sumprod"]


def classify(spec, problems):
    return kf.classify_plain(spec, problems)


def gen_cases(tier, seed, shard, nshards):
    n = N[tier] // nshards
    for i in range(n):
        rnd = random.Random("%s-%d-%d-%d" % (ID, seed, shard, i))
        force = STRATA[i % len(STRATA)]
        spec, info = G.gen_plain(rnd, force=force)
        if tier == "thorough" and i % 25 == 0 and len(info["ranks"]) <= 4:
            # all loop orders of this base Einsum
            for s in G.all_loop_orders(spec, info):
                yield s, rnd
        else:
            yield spec, rnd


def shard(tier, seed, shard, nshards):
    st = common.Stats()
    for spec, rnd in gen_cases(tier, seed, shard, nshards):
        cs = C.make_case(spec, rnd, lo=1, hi=5)
        out = C.evaluate(cs)
        st.account(ID, cs, out, classify, must_compile=True)
    return st.result()


def replay(v):
    cs = C.Case.from_json(v["case"])
    out = C.evaluate(cs)
    st = common.Stats()
    st.account(ID, cs, out, classify, must_compile=True)
    return st.violations


def finalize(results, counters, tier, seed):
    inc = []
    if counters.get("status", {}).get("ok", 0) < N[tier] // 4:
        inc.append("too few accepted cases: %r" % counters.get("status"))
    need = ["union3", "take3", "rank0", "reduce0", "contracted-outer", "broadcast", "sumprod"]
    miss = [s for s in need if counters.get("strata_ok", {}).get(s, 0) == 0]
    if miss:
        inc.append("strata never executed: %r" % miss)
    cov = {"rule": "seeded random Einsums (1-4 ranks, 1-3 terms, 1-3 factors, scalars, rank-0, "
                   "take) x random rank orders x random loop order (thorough: all loop orders "
                   "for 1 in 25 base Einsums); distinct = distinct (spec, mode) text; non-trivial "
                   "= compiler accepted, every emitted loop iterated at least once and >=1 update "
                   "executed"}
    assumptions = common.MODEL_ASSUMPTIONS + [
        "inputs: positive integers 1..9, no stored zeros, rank-0 inputs non-zero, extents 1..5"]
    return cov, assumptions, inc
