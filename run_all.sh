#!/bin/bash
# run every check's quick (or $1) tier on the current tree; summary at the end
tier=${1:-quick}
cd /verif
rm -f /tmp/run_all.log
for p in C01 C02 C03 C04 C05 C06 C07 C08 C09 C10 C11 C12 C13 C14 C15 C16 C17 C18 C19; do
  /venv/bin/python -m vf.check $p --tier $tier > /tmp/run_$p.log 2>&1
  echo "$p exit=$? $(tail -1 /tmp/run_$p.log | cut -c1-160)" | tee -a /tmp/run_all.log
done
