"""Check driver.

  python -m vf.check C01 --tier quick|thorough        run a property's check
  python -m vf.check C01 --replay replay/C01/x.json    re-run one recorded case
  python -m vf.check C01 --tier quick --shard 3/16 --out f.json   (internal)

Exit 0: held on everything explored (KNOWN-FINDING lines allowed).
Exit 1: violation; prints `VIOLATION property=<id> replay=<path>`.
Exit 2: inconclusive (deciding monitor not reached / model validation failed /
        watchdog) - prints `INCONCLUSIVE property=<id> reason=...`.
"""
import argparse
import hashlib
import importlib
import json
import os
import subprocess
import sys
import tempfile
import time

HERE = os.path.dirname(os.path.dirname(os.path.abspath(__file__)))
EVID = os.environ.get("VF_EVIDENCE_DIR") or os.path.join(HERE, "evidence")
REPLAY = os.environ.get("VF_REPLAY_DIR") or os.path.join(HERE, "replay")
WORK = os.path.join(HERE, ".work")
KF_FILE = os.path.join(HERE, "known_findings.json")
NCPU = int(os.environ.get("VF_JOBS", "16"))


def load_known():
    try:
        with open(KF_FILE) as f:
            j = json.load(f)
    except FileNotFoundError:
        return {}
    return {e["id"]: e for e in j.get("findings", []) if e.get("status") == "known"}


def _mod(pid):
    return importlib.import_module("vf.checks." + pid.lower())


def _jsonable(o):
    if isinstance(o, dict):
        return {str(k): _jsonable(v) for k, v in o.items()}
    if isinstance(o, (list, tuple, set, frozenset)):
        return [_jsonable(x) for x in o]
    if isinstance(o, (str, int, float, bool)) or o is None:
        return o
    return repr(o)


def run_shard(args):
    mod = _mod(args.pid)
    i, n = [int(x) for x in args.shard.split("/")]
    t0 = time.time()
    res = mod.shard(args.tier, args.seed, i, n)
    res["wall_s"] = time.time() - t0
    with open(args.out, "w") as f:
        json.dump(_jsonable(res), f)
    return 0


def _spawn(pid, tier, seed, nshards, timeout, env_extra=None):
    os.makedirs(WORK, exist_ok=True)
    tmp = tempfile.mkdtemp(prefix=pid + "-", dir=WORK)
    procs = []
    env = dict(os.environ)
    env.setdefault("PYTHONHASHSEED", "0")
    env["PYTHONDONTWRITEBYTECODE"] = "1"
    env["TEAAL_VERIF"] = "1"
    env["PYTHONPATH"] = HERE + os.pathsep + env.get("VF_REPO", "/repo")
    if env_extra:
        env.update(env_extra)
    for i in range(nshards):
        out = os.path.join(tmp, "s%d.json" % i)
        log = open(os.path.join(tmp, "s%d.log" % i), "w")
        e = dict(env)
        per = getattr(_mod(pid), "shard_env", None)
        if per:
            e.update(per(tier, seed, i, nshards))
        p = subprocess.Popen([sys.executable, "-m", "vf.check", pid, "--tier", tier,
                              "--seed", str(seed), "--shard", "%d/%d" % (i, nshards),
                              "--out", out], cwd=HERE, env=e, stdout=log, stderr=log)
        procs.append((p, out, log, i))
    results, problems = [], []
    deadline = time.time() + timeout
    for p, out, log, i in procs:
        try:
            p.wait(timeout=max(1, deadline - time.time()))
        except subprocess.TimeoutExpired:
            p.kill()
            p.wait()
            problems.append("shard %d watchdog (%ds)" % (i, timeout))
            log.close()
            continue
        log.close()
        if p.returncode != 0 or not os.path.exists(out):
            tail = open(log.name).read()[-600:]
            problems.append("shard %d exit %s: %s" % (i, p.returncode, tail))
            continue
        with open(out) as f:
            results.append(json.load(f))
    # clean
    for f in os.listdir(tmp):
        try:
            os.remove(os.path.join(tmp, f))
        except OSError:
            pass
    try:
        os.rmdir(tmp)
    except OSError:
        pass
    return results, problems


def _write_replay(pid, v):
    os.makedirs(os.path.join(REPLAY, pid), exist_ok=True)
    blob = json.dumps(_jsonable(v), sort_keys=True)
    h = hashlib.sha1(blob.encode()).hexdigest()[:12]
    path = os.path.join(REPLAY, pid, h + ".json")
    with open(path, "w") as f:
        json.dump(_jsonable(v), f, indent=1)
    return path


def merge_counts(dst, src):
    for k, v in src.items():
        if isinstance(v, dict):
            merge_counts(dst.setdefault(k, {}), v)
        elif isinstance(v, (int, float)):
            dst[k] = dst.get(k, 0) + v
        elif isinstance(v, list):
            dst.setdefault(k, [])
            for x in v:
                if x not in dst[k] and len(dst[k]) < 40:
                    dst[k].append(x)
        else:
            dst.setdefault(k, v)


def main_check(args):
    pid = args.pid
    mod = _mod(pid)
    t0 = time.time()
    tier = args.tier
    seed = args.seed
    inconclusive = []
    # model validation for model-based checks
    if getattr(mod, "NEEDS_MODEL", False):
        from . import golden
        n, fails = golden.validate(seed=seed, reps=2)
        if fails:
            inconclusive.append("reference model no longer matches pinned programs: %r" % (fails[:2],))
    nshards = getattr(mod, "SHARDS", {}).get(tier, NCPU)
    timeout = getattr(mod, "TIMEOUT", {}).get(tier, 900 if tier == "quick" else 14400)
    if hasattr(mod, "custom_run"):
        results, problems = mod.custom_run(tier, seed, timeout)
    else:
        results, problems = _spawn(pid, tier, seed, nshards, timeout)
    inconclusive.extend(problems)

    known = load_known()
    violations, kf_hits = [], {}
    counters = {}
    keys = set()
    evaluations = 0
    samples = []
    for r in results:
        evaluations += r.get("evaluations", 0)
        keys.update(r.get("nontrivial_keys", []))
        merge_counts(counters, r.get("counters", {}))
        for s in r.get("samples", []):
            if len(samples) < 6:
                samples.append(s)
        for v in r.get("violations", []):
            kf = v.get("known_finding")
            if kf and kf in known:
                kf_hits.setdefault(kf, []).append(v)
            else:
                violations.append(v)
        inconclusive.extend(r.get("inconclusive", []))
    coverage, assumptions, inc = mod.finalize(results, counters, tier, seed)
    if inc:
        inconclusive.extend(inc)
    coverage.setdefault("evaluations", evaluations)
    coverage.setdefault("distinct_nontrivial", len(keys))
    coverage.setdefault("samples", samples or [{"note": "no sample recorded"}])
    coverage["counters"] = counters
    coverage["known_findings_hit"] = {k: len(v) for k, v in kf_hits.items()}
    coverage["known_finding_examples"] = {k: v[0].get("summary", "") for k, v in kf_hits.items()}
    coverage["shards"] = len(results)
    if inconclusive:
        coverage["inconclusive"] = [str(x)[-700:] for x in inconclusive[:10]]
    verdict = "violated" if violations else ("inconclusive" if inconclusive else "held")
    coverage["verdict"] = verdict
    ev = {"property_id": pid, "tier": tier, "seed": seed,
          "level": getattr(mod, "LEVEL", "exploration"),
          "coverage": _jsonable(coverage), "assumptions": assumptions,
          "wall_s": round(time.time() - t0, 2), "violations": len(violations)}
    os.makedirs(EVID, exist_ok=True)
    with open(os.path.join(EVID, pid + ".json"), "w") as f:
        json.dump(ev, f, indent=1)
    for k, vs in sorted(kf_hits.items()):
        print("KNOWN-FINDING: property=%s %s: %s (%d cases this run; e.g. %s)" % (
            pid, k, known[k]["what"], len(vs), vs[0].get("summary", "")[:160]))
    seen = set()
    for v in violations[:25]:
        path = _write_replay(pid, v)
        if path in seen:
            continue
        seen.add(path)
        print("VIOLATION property=%s replay=%s" % (pid, path))
        print("  " + v.get("summary", "")[:300])
    print("%s %s tier=%s seed=%d evaluations=%d distinct_nontrivial=%d violations=%d known=%d wall=%.1fs" % (
        pid, verdict.upper(), tier, seed, coverage["evaluations"], coverage["distinct_nontrivial"],
        len(violations), sum(len(v) for v in kf_hits.values()), time.time() - t0))
    if violations:
        return 1
    if inconclusive:
        for r in inconclusive[:5]:
            print("INCONCLUSIVE property=%s reason=%s" % (pid, str(r)[:400]))
        return 2
    return 0


def main_replay(args):
    mod = _mod(args.pid)
    with open(args.replay) as f:
        v = json.load(f)
    known = load_known()
    out = mod.replay(v)
    bad = 0
    for r in out:
        kf = r.get("known_finding")
        if kf and kf in known:
            print("KNOWN-FINDING: property=%s %s: %s" % (args.pid, kf, r.get("summary", "")))
        else:
            bad += 1
            print("VIOLATION property=%s replay=%s" % (args.pid, args.replay))
            print("  " + r.get("summary", ""))
            if r.get("detail"):
                print(json.dumps(_jsonable(r["detail"]), indent=1)[:3000])
    if not out:
        print("%s replay: no violation reproduced" % args.pid)
    return 1 if bad else 0


def main():
    ap = argparse.ArgumentParser()
    ap.add_argument("pid")
    ap.add_argument("--tier", default=os.environ.get("VERIF_TIER", "quick"))
    ap.add_argument("--seed", type=int, default=int(os.environ.get("VERIF_SEED", "0")))
    ap.add_argument("--shard")
    ap.add_argument("--out")
    ap.add_argument("--replay")
    args = ap.parse_args()
    args.pid = args.pid.upper()
    if "PYTHONHASHSEED" not in os.environ and not args.shard:
        env = dict(os.environ)
        env["PYTHONHASHSEED"] = "0"
        env["PYTHONDONTWRITEBYTECODE"] = "1"
        env["TEAAL_VERIF"] = "1"
        env["PYTHONPATH"] = HERE + os.pathsep + env.get("VF_REPO", "/repo")
        os.execve(sys.executable, [sys.executable, "-m", "vf.check"] + sys.argv[1:], env)
    if args.shard:
        return run_shard(args)
    if args.replay:
        return main_replay(args)
    return main_check(args)


if __name__ == "__main__":
    sys.exit(main())
