"""AST instrumentation of emitted HiFiber programs.

Adds calls to two hook functions that the harness puts in the namespace:

  __vf_loop(kind, loop_id)           kind in enter / iter / exit
  __vf_upd(upd_id, op, {var: value}) before every update statement
                                     (`*_ref +=` or `*_ref <<=`), with the
                                     loop variables in scope

The un-instrumented text is what every text-level oracle sees; this module
only affects how the text is *executed* on the reference model.
"""
import ast


class LoopInfo:
    def __init__(self, lid, target_src, iter_src, depth, lineno, parent):
        self.id = lid
        self.target = target_src
        self.iter = iter_src
        self.depth = depth
        self.lineno = lineno
        self.parent = parent
        self.vars = []


def _target_names(t):
    out = []
    for n in ast.walk(t):
        if isinstance(n, ast.Name):
            out.append(n.id)
    return out


class _Instr(ast.NodeTransformer):
    def __init__(self):
        self.loops = []
        self.updates = []
        self.stack = []

    def _call(self, fn, args):
        return ast.Expr(ast.Call(ast.Name(fn, ast.Load()), args, []))

    def visit_For(self, node):
        lid = len(self.loops)
        info = LoopInfo(lid, ast.unparse(node.target), ast.unparse(node.iter),
                        len(self.stack), node.lineno,
                        self.stack[-1].id if self.stack else None)
        info.vars = _target_names(node.target)
        self.loops.append(info)
        self.stack.append(info)
        node.body = [self._call("__vf_loop", [ast.Constant("iter"), ast.Constant(lid)])] + \
            self._visit_body(node.body)
        self.stack.pop()
        pre = self._call("__vf_loop", [ast.Constant("enter"), ast.Constant(lid)])
        post = self._call("__vf_loop", [ast.Constant("exit"), ast.Constant(lid)])
        return [pre, node, post]

    def _visit_body(self, body):
        out = []
        for s in body:
            r = self.visit(s)
            if isinstance(r, list):
                out.extend(r)
            elif r is not None:
                out.append(r)
        return out

    def visit_If(self, node):
        node.body = self._visit_body(node.body)
        node.orelse = self._visit_body(node.orelse)
        return node

    def visit_AugAssign(self, node):
        if isinstance(node.target, ast.Name) and node.target.id.endswith("_ref") and \
                isinstance(node.op, (ast.Add, ast.LShift)):
            uid = len(self.updates)
            names = []
            for l in self.stack:
                for v in l.vars:
                    if v not in names:
                        names.append(v)
            self.updates.append({"id": uid, "target": node.target.id,
                                 "op": "+=" if isinstance(node.op, ast.Add) else "<<=",
                                 "loops": [l.id for l in self.stack],
                                 "src": ast.unparse(node), "lineno": node.lineno})
            env = ast.Dict([ast.Constant(n) for n in names],
                           [ast.Name(n, ast.Load()) for n in names])
            pre = self._call("__vf_upd", [ast.Constant(uid),
                                          ast.Constant(self.updates[-1]["op"]), env])
            return [pre, node]
        return node


def instrument(text):
    """Returns (code object, loops, updates)."""
    tree = ast.parse(text)
    ins = _Instr()
    tree.body = ins._visit_body(tree.body)
    ast.fix_missing_locations(tree)
    code = compile(tree, "<emitted>", "exec")
    return code, ins.loops, ins.updates
