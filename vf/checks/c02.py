"""C02 - shape partitioning never changes the result and is undone on the
output.  Oracles: dense evaluation; differential against the same Einsum
compiled without partitioning; names/rank ids/coordinate space (C07 monitor)."""
import random

from .. import case as C, run, model
from ..gen import einsum as G, mapping as M
from . import common
from .. import kf

ID = "C02"
NEEDS_MODEL = True
LEVEL = "exploration"
N = {"quick": 1280, "thorough": 40000}
FORCE = [None, None, None, "three-level", "nway-above-uniform", "contracted-outer",
         "size1", "size-big"]


def classify(spec, problems):
    return kf.classify_plain(spec, problems)


def gen_case(tier, seed, shard, i):
    rnd = random.Random("%s-%d-%d-%d" % (ID, seed, shard, i))
    if i % 7 == 6:
        # a cascade whose Einsums are each shape-partitioned (shared inputs may be
        # partitioned differently by different Einsums)
        from ..gen import cascade as GC
        spec = GC.gen_cascade(rnd, n=rnd.choice([2, 2, 3]), mapped=False)
        for ei, e in enumerate(spec.exprs):
            info = GC._einsum_info(spec, e)
            if sum(1 for e2 in spec.exprs if e2.out.name == e.out.name) > 1:
                continue      # one mapping entry would serve both writers of this output
            if info["ranks"]:
                spec = M.add_shape_partitioning(rnd, spec, info, ordered=True, ei=ei)
        spec.tags.append("cascade-partitioned")
        return spec, rnd
    base, info = G.gen_plain(rnd, allow_take=(i % 3 == 0), max_ranks=3)
    if "take-in-sum" in base.tags:
        base, info = G.gen_plain(rnd, allow_take=False, max_ranks=3)
    spec = M.add_shape_partitioning(rnd, base, info, force=FORCE[i % len(FORCE)])
    return spec, rnd


def run_one(st, spec, rnd):
    cs = C.make_case(spec, rnd, lo=1, hi=9)
    out = C.evaluate(cs)
    if out.status == "ok" and not out.problems:
        # differential: unpartitioned compile on the same inputs
        ref = M.unpartitioned_of(spec)
        cs2 = C.Case(ref, cs.extents, cs.inputs, cs.scalars)
        o2 = C.evaluate(cs2, monitors=())
        if o2.status == "ok":
            st.bump("diff", "ran")
            for e in spec.exprs:
                n = e.out.name
                try:
                    a, oa = run.output_of(out.ex, spec, n)
                    b, ob = run.output_of(o2.ex, ref, n)
                    da = run.from_order(a.toDict(), spec.decl[n], oa)
                    db = run.from_order(b.toDict(), ref.decl[n], ob)
                except (KeyError, model.ModelUnsupported):
                    continue
                if da != db:
                    out.problems.append({"kind": "differs-from-unpartitioned", "tensor": n})
        else:
            st.bump("diff", "unpartitioned-" + str(o2.status))
    st.account(ID, cs, out, classify, must_compile=True)


def shard(tier, seed, shard, nshards):
    st = common.Stats()
    n = N[tier] // nshards
    for i in range(n):
        spec, rnd = gen_case(tier, seed, shard, i)
        run_one(st, spec, rnd)
    return st.result()


def replay(v):
    cs = C.Case.from_json(v["case"])
    st = common.Stats()
    out = C.evaluate(cs)
    st.account(ID, cs, out, classify, must_compile=True)
    return st.violations


def finalize(results, counters, tier, seed):
    inc = []
    if counters.get("status", {}).get("ok", 0) < N[tier] // 4:
        inc.append("too few accepted cases: %r" % counters.get("status"))
    need = ["cascade-partitioned", "three-level", "nway-above-uniform", "part-contracted-outer", "size1",
            "part-output", "part-contracted", "symbolic", "unordered", "ordered"]
    miss = [s for s in need if counters.get("strata_ok", {}).get(s, 0) == 0]
    if miss:
        inc.append("strata never executed: %r" % miss)
    if counters.get("events", {}).get("merge", 0) == 0:
        inc.append("no mergeRanks ever executed (output restoration not observed)")
    cov = {"rule": "C01-class Einsums (<=3 ranks) x random subset of ranks x stacks of 1-3 "
                   "uniform_shape/nway_shape (sizes 1..6 and 11, literal or symbolic) x loop order "
                   "= random permutation of all levels (half keep per-rank order); extents 1..9; "
                   "distinct = distinct spec text; non-trivial = accepted, all loops iterated, >=1 "
                   "update"}
    return cov, common.MODEL_ASSUMPTIONS + [
        "splitUniform(step, depth, pre_halo, post_halo): partition g (upper coordinate g*step) "
        "holds c iff g*step-pre <= c < (g+1)*step+post; mergeRanks keeps the innermost coordinate "
        "and adds duplicates"], inc
