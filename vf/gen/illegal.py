"""One injector per stated legality rule.  Each injector builds a LEGAL host
spec (control group: it must compile) and the same spec with exactly one rule
violated, varying where the violation sits (which tensor / term / tuple
member / stack level / Einsum)."""
from ..spec import Acc, Term, Einsum, Spec

ARCH = """architecture:
  accel:
  - name: System
    attributes:
      clock_frequency: 1000
    local:
    - name: MUL
      class: compute
      attributes:
        type: mul
"""


def _acc(name, ranks):
    return Acc(name, [[(1, r.lower())] for r in ranks])


def host_product(rnd, nranks=None, extra_einsum=None):
    """Z[out] = A[...] * B[...] (* C[...]) over 2-4 ranks, every input with
    >= 2 ranks where possible.  Optionally an unrelated Einsum placed before
    or after (so the violation can sit in the 1st or 2nd Einsum)."""
    pool = ["K", "M", "N", "J", "P"]
    nr = nranks or rnd.randint(2, 4)
    rs = rnd.sample(pool, nr)
    nf = rnd.randint(2, 3)
    facs = []
    cover = set()
    for i in range(nf):
        k = rnd.randint(min(2, nr), nr)
        fr = rnd.sample(rs, k)
        facs.append(fr)
        cover |= set(fr)
    for r in rs:
        if r not in cover:
            facs[rnd.randrange(nf)].append(r)
    out_ranks = [r for r in rs if rnd.random() < 0.6] or [rs[0]]
    decl = {}
    accs = []
    for n, fr in zip("ABC", facs):
        decl[n] = fr
        accs.append(_acc(n, fr))
    decl["Z"] = out_ranks
    exprs = [Einsum(_acc("Z", out_ranks), [Term("times", accs)])]
    pos = 0
    if extra_einsum is None:
        extra_einsum = rnd.choice([None, None, "before", "after"])
    if extra_einsum:
        decl["X"] = ["R"]
        decl["Y"] = ["R"]
        e2 = Einsum(_acc("Y", ["R"]), [Term("times", [_acc("X", ["R"])])])
        if extra_einsum == "before":
            exprs = [e2] + exprs
            pos = 1
        else:
            exprs = exprs + [e2]
    s = Spec(decl, exprs)
    return s, {"ranks": rs, "pos": pos, "facs": facs, "out": out_ranks}


def host_conv(rnd):
    two = rnd.random() < 0.4
    chan = rnd.random() < 0.4
    decl = {"I": ["W"], "F": ["S"], "O": ["Q"]}
    i_idx = [[(1, "q"), (1, "s")]]
    f_idx = [[(1, "s")]]
    o_idx = [[(1, "q")]]
    if two:
        decl = {"I": ["W", "H"], "F": ["S", "R"], "O": ["Q", "P"]}
        i_idx.append([(1, "p"), (1, "r")])
        f_idx.append([(1, "r")])
        o_idx.append([(1, "p")])
    if chan:
        decl["I"] = ["C"] + decl["I"]
        decl["F"] = ["C"] + decl["F"]
        i_idx = [[(1, "c")]] + i_idx
        f_idx = [[(1, "c")]] + f_idx
    e = Einsum(Acc("O", o_idx), [Term("times", [Acc("I", i_idx), Acc("F", f_idx)])])
    return Spec(decl, [e]), {"two": two, "chan": chan}


# every injector returns (rule, variant, host_spec, bad_spec, mode) or None

def inj_dup_rank(rnd):
    s, info = host_product(rnd)
    bad = s.clone()
    which = rnd.choice(["input", "output", "unused"])
    if which == "unused":
        s.decl["U"] = ["M", "N", "K"][:rnd.randint(2, 3)]
        bad.decl["U"] = list(s.decl["U"])
        t = "U"
    elif which == "output":
        t = "Z"
    else:
        t = rnd.choice([n for n in "ABC" if n in s.decl])
    rs = bad.decl[t]
    d = rnd.choice(rs)
    p = rnd.randint(0, len(rs))
    rs.insert(p, d)
    for e in bad.exprs:
        for a in [e.out] + e.inputs():
            if a.name == t:
                a.idx.insert(p, [(1, d.lower())])
    return "duplicate-rank-in-declaration", "%s@%d/%d" % (which, p, len(rs)), s, bad, "plain"


def inj_undeclared(rnd):
    s, info = host_product(rnd)
    bad = s.clone()
    e = bad.exprs[info["pos"]]
    where = rnd.choice(["output", "first", "last"])
    if where == "output":
        e.out.name = "Yy"
    else:
        fs = e.terms[0].factors
        (fs[0] if where == "first" else fs[-1]).name = "Qq"
    return "undeclared-tensor", "%s/einsum%d" % (where, info["pos"]), s, bad, "plain"


def inj_repeated(rnd):
    s, info = host_product(rnd)
    bad = s.clone()
    e = bad.exprs[info["pos"]]
    fs = e.terms[0].factors
    where = rnd.choice(["rhs", "output-on-rhs", "second-term"])
    if where == "rhs":
        i, j = rnd.sample(range(len(fs)), 2)
        fs[j].name = fs[i].name
    elif where == "output-on-rhs":
        fs[rnd.randrange(len(fs))].name = e.out.name
    else:
        # a second term over the same ranks that reuses a tensor of the first
        import copy
        t2 = copy.deepcopy(e.terms[0])
        for k, f in enumerate(t2.factors):
            if k != 0:
                nn = "D%d" % k
                bad.decl[nn] = list(bad.decl[f.name])
                s.decl[nn] = list(bad.decl[f.name])
                f.name = nn
        e.terms.append(t2)
        # host: same second term but with the first factor renamed too
        hs = s.exprs[info["pos"]]
        t3 = copy.deepcopy(t2)
        s.decl["D0"] = list(s.decl[t3.factors[0].name])
        t3.factors[0].name = "D0"
        hs.terms.append(t3)
    return "repeated-tensor", "%s/einsum%d" % (where, info["pos"]), s, bad, "plain"


def inj_terms_differ(rnd):
    s, info = host_product(rnd)
    bad = s.clone()
    rs = info["ranks"]
    import copy
    nextra = rnd.choice([1, 2])
    for hs, is_bad in ((s, False), (bad, True)):
        e = hs.exprs[info["pos"]]
        for k in range(nextra):
            full = list(rs)
            nm = "E%d" % k
            if is_bad and k == nextra - 1:
                how = rnd.choice(["missing", "extra"]) if len(rs) > 1 else "extra"
                if how == "missing":
                    drop = rnd.choice(rs)
                    full = [r for r in rs if r != drop]
                else:
                    full = rs + ["T"]
            hs.decl[nm] = full
            kind = "take" if (rnd.random() < 0.3 and len(full) >= 1) else "times"
            if kind == "take":
                nm2 = nm + "b"
                hs.decl[nm2] = list(full)
                e.terms.append(Term("take", [_acc(nm, full), _acc(nm2, full)], 0))
            else:
                e.terms.append(Term("times", [_acc(nm, full)]))
    return "terms-over-different-rank-sets", "term%d/einsum%d" % (nextra + 1, info["pos"]), \
        s, bad, "plain"


def _with_part(s, out, parts, lo=None):
    b = s.clone()
    # the entries of a partitioning section may be written in any order: half the specs
    # (chosen by content, so that both orders occur for hosts and for violations) reversed
    import zlib
    if len(parts) > 1 and zlib.crc32(repr(list(parts.items())).encode()) % 2:
        parts = dict(reversed(list(parts.items())))
    b.partitioning = {out: parts}
    if lo is not None:
        b.loop_order = {out: lo}
    return b


def _flat_host(rnd):
    """Host whose input A holds >= 2 (3 if possible) ranks to flatten."""
    for _ in range(50):
        s, info = host_product(rnd, nranks=rnd.randint(3, 4), extra_einsum=rnd.choice(
            [None, "before"]))
        a = s.decl["A"]
        outs = s.decl["Z"]
        cand = [r for r in a]
        if len(cand) >= 2:
            k = rnd.choice([2, 2, 3]) if len(cand) >= 3 else 2
            fr = rnd.sample(cand, k)
            if len([r for r in fr if r in outs]) <= 1:
                return s, info, fr
    return None


def inj_flatten_combined(rnd):
    h = _flat_host(rnd)
    if not h:
        return None
    s, info, fr = h
    key = "(%s)" % ", ".join(fr)
    extra = {}
    others = [r for r in info["ranks"] if r not in fr]
    choices = ["uniform_occupancy(A.3)", "uniform_shape(4)", "nway_shape(2)"]
    if others and rnd.random() < 0.4:
        # follow(X) of a rank outside the tuple that has a partitioning of its own
        x = rnd.choice(others)
        extra = {x: ["uniform_shape(3)"]}
        choices = ["follow(%s)" % x]
    host = _with_part(s, "Z", dict({key: ["flatten()"]}, **extra))
    other = rnd.choice(choices)
    stack = ["flatten()"]
    for _ in range(rnd.choice([1, 1, 2])):
        stack.insert(rnd.randint(0, len(stack)), other)
    bad = _with_part(s, "Z", dict({key: stack}, **extra))
    return "flatten-combined-with-other-directives", "flatten@%d/%d" % (
        stack.index("flatten()"), len(stack)), host, bad, "plain"


def inj_flatten_one_rank(rnd):
    h = _flat_host(rnd)
    if not h:
        return None
    s, info, fr = h
    host = _with_part(s, "Z", {"(%s)" % ", ".join(fr): ["flatten()"]})
    bad = _with_part(s, "Z", {rnd.choice(info["ranks"]): ["flatten()"]})
    return "flatten-fewer-than-two-ranks", "single", host, bad, "plain"


def inj_flatten_index_math(rnd):
    s, info = host_conv(rnd)
    if not (info["two"] or info["chan"]):
        s, info = host_conv(rnd)
        if not (info["two"] or info["chan"]):
            return None
    iranks = list(s.decl["I"])
    math = [r for r in iranks if r in ("W", "H")]
    others = [r for r in iranks if r not in math]
    k = 2 if len(iranks) < 3 or rnd.random() < 0.5 else 3
    m = rnd.choice(math)
    rest = [r for r in iranks if r != m]
    tup = [m] + rnd.sample(rest, k - 1)
    rnd.shuffle(tup)
    bad = _with_part(s, "O", {"(%s)" % ", ".join(tup): ["flatten()"]})
    return "flatten-on-index-math-rank", "member%d/%d" % (tup.index(m), len(tup)), s, bad, "plain"


def inj_flatten_indep(rnd):
    h = _flat_host(rnd)
    if not h:
        return None
    s, info, fr = h
    key = "(%s)" % ", ".join(fr)
    host = _with_part(s, "Z", {key: ["flatten()"]})
    m = rnd.randrange(len(fr))
    d = rnd.choice(["uniform_shape(3)", "uniform_occupancy(A.2)", "nway_shape(2)",
                    "uniform_shape(4), uniform_shape(2)"])
    order = rnd.random() < 0.5
    parts = {}
    if order:
        parts[fr[m]] = d.split(", ")
        parts[key] = ["flatten()"]
    else:
        parts[key] = ["flatten()"]
        parts[fr[m]] = d.split(", ")
    bad = _with_part(s, "Z", parts)
    return "flatten-on-independently-partitioned-rank", "member%d/%d" % (m, len(fr)), \
        host, bad, "plain"


def inj_flatten_flattened(rnd):
    h = _flat_host(rnd)
    if not h:
        return None
    s, info, fr = h
    key = "(%s)" % ", ".join(fr)
    flat = "".join(fr)
    host = _with_part(s, "Z", {key: ["flatten()"]})
    rest = [r for r in s.decl["A"] if r not in fr] or [r for r in info["ranks"] if r not in fr]
    if not rest:
        return None
    tup = [flat, rnd.choice(rest)]
    if rnd.random() < 0.5:
        tup.reverse()
    bad = _with_part(s, "Z", {key: ["flatten()"], "(%s)" % ", ".join(tup): ["flatten()"]})
    return "flatten-on-already-flattened-rank", "member%d" % tup.index(flat), host, bad, "plain"


def inj_nway_after_occ(rnd):
    s, info = host_product(rnd)
    r = rnd.choice(s.decl["A"] if rnd.random() < 0.7 else info["ranks"])
    holders = [t for t in "ABC" if t in s.decl and r in s.decl[t]]
    if not holders:
        return None
    n = rnd.choice([2, 3, 3, 4])
    # host: a legal stack; shape splits may also FOLLOW an occupancy split
    k = rnd.randint(0, n - 1)
    legal = ["uniform_shape(%d)" % (8 - i) for i in range(k)]
    for i in range(n - k):
        if i > 0 and rnd.random() < 0.4:
            legal.append("uniform_shape(%d)" % rnd.randint(2, 4))
        else:
            legal.append("uniform_occupancy(%s.%d)" % (rnd.choice(holders), 6 - i))
    host = _with_part(s, "Z", {r: legal})
    stack = list(legal)
    first = [i for i, d in enumerate(stack) if d.startswith("uniform_occupancy")][0]
    how = rnd.choice(["append", "replace", "insert"])
    if how == "append" or first == len(stack) - 1:
        stack.append("nway_shape(2)")
        p = len(stack) - 1
    elif how == "replace":
        p = rnd.randint(first + 1, len(stack) - 1)
        stack[p] = "nway_shape(2)"
    else:
        p = rnd.randint(first + 1, len(stack))
        stack.insert(p, "nway_shape(2)")
    between = [d.split("(")[0] for d in stack[first + 1:p]]
    bad = _with_part(s, "Z", {r: stack})
    return "nway-after-occupancy", "nway@%d/%d(first-dyn@%d;between=%s)" % (
        p, len(stack), first, "+".join(between) or "-"), host, bad, "plain"


def inj_nway_after_followed_occ(rnd):
    """The occupancy split reaches the rank through follow(): W is split by the occupancy of I,
    Q follows it, and Q's stack then asks for an n-way split."""
    decl = {"I": ["W"], "F": ["S"], "O": ["Q"]}
    fs = [Acc("I", [[(1, "q"), (rnd.choice([1, 1, 2]), "s")]]), Acc("F", [[(1, "s")]])]
    rnd.shuffle(fs)
    s = Spec(decl, [Einsum(Acc("O", [[(1, "q")]]), [Term("times", fs)])])
    occ = "uniform_occupancy(I.%d)" % rnd.randint(2, 5)
    lo = ["Q1", "S", "Q0"]
    host = _with_part(s, "O", {"W": [occ], "Q": ["follow(W)"]}, lo)
    n = rnd.randint(2, 4)
    parts = {"W": [occ], "Q": ["follow(W)", "nway_shape(%d)" % n]}
    if rnd.random() < 0.5:
        parts = dict(reversed(list(parts.items())))
    bad = _with_part(s, "O", parts, rnd.choice([lo, ["Q2", "S", "Q1", "Q0"], None]))
    return "nway-after-occupancy", "through-follow", host, bad, "plain"


def inj_shape_after_flatten(rnd):
    h = _flat_host(rnd)
    if not h:
        return None
    s, info, fr = h
    key = "(%s)" % ", ".join(fr)
    flat = "".join(fr)
    host = _with_part(s, "Z", {key: ["flatten()"], flat: ["uniform_occupancy(A.4)"]})
    n = rnd.choice([1, 2, 2, 3])
    stack = ["uniform_occupancy(A.%d)" % (6 - i) for i in range(n)]
    p = rnd.randrange(n)
    stack[p] = rnd.choice(["uniform_shape(2)", "nway_shape(2)"])
    bad = _with_part(s, "Z", {key: ["flatten()"], flat: stack})
    return "shape-split-after-flattening", "shape@%d/%d" % (p, n), host, bad, "plain"


def inj_nonflatten_on_tuple(rnd):
    h = _flat_host(rnd)
    if not h:
        return None
    s, info, fr = h
    key = "(%s)" % ", ".join(fr)
    extra = {}
    others = [r for r in info["ranks"] if r not in fr]
    choices = ["uniform_shape(4)", "uniform_occupancy(A.3)", "nway_shape(2)", "follow(%s)" % fr[0]]
    if others and rnd.random() < 0.4:
        x = rnd.choice(others)
        extra = {x: ["uniform_shape(3)"]}
        choices = ["follow(%s)" % x]
    host = _with_part(s, "Z", dict({key: ["flatten()"]}, **extra))
    n = rnd.choice([1, 1, 2])
    stack = [rnd.choice(choices) for _ in range(n)]
    bad = _with_part(s, "Z", dict({key: stack}, **extra))
    return "non-flatten-directive-on-rank-tuple", "%d-directives/%d-ranks" % (n, len(fr)), \
        host, bad, "plain"


def inj_project_into_output(rnd):
    s, info = host_conv(rnd)
    # legal loop order: every index equation uses the output var + one other
    dims = [("Q", "S", "W")] + ([("P", "R", "H")] if info["two"] else [])
    legal, bad_lo = [], []
    bad_dim = rnd.randrange(len(dims))
    for i, (q, f, w) in enumerate(dims):
        legal += rnd.choice([[q, f], [q, w]])
        bad_lo += [w, f] if i == bad_dim else rnd.choice([[q, f], [q, w]])
    if info["chan"]:
        legal.insert(rnd.randint(0, len(legal)), "C")
        bad_lo.insert(rnd.randint(0, len(bad_lo)), "C")
    rnd.shuffle(bad_lo)
    host = s.clone()
    host.loop_order = {"O": legal}
    bad = s.clone()
    bad.loop_order = {"O": bad_lo}
    if rnd.random() < 0.4:
        # the output rank is shape-partitioned and the input rank follows it: the loop
        # order names the input's LEVELS (W1, W0) where the output's belong
        q, f, w = dims[bad_dim]
        nlev = rnd.choice([1, 1, 2])
        part = {q: ["uniform_shape(%d)" % z for z in sorted(rnd.sample([2, 3, 4, 6, 8, 12], nlev),
                                                              reverse=True)],
                w: ["follow(%s)" % q]}
        def lv(r):
            return [r + str(i) for i in range(nlev, -1, -1)]
        # a legal order for the partitioned host: output levels + the filter rank
        host_lo = [x for x in legal if x not in (q, w, f)]
        host_lo = lv(q)[:1] + [f] + lv(q)[1:] + host_lo if rnd.random() < 0.5 else lv(q) + [f] + host_lo
        bad_p = [x.replace(q, w, 1) if x in lv(q) else x for x in host_lo]
        host = s.clone()
        host.loop_order = {"O": host_lo}
        host.partitioning = {"O": part}
        bad = s.clone()
        bad.loop_order = {"O": bad_p}
        bad.partitioning = {"O": dict(part)}
        return "loop-order-projects-into-output", "partitioned-follower/%d" % nlev, host, bad, "plain"
    return "loop-order-projects-into-output", "dim%d/%d" % (bad_dim, len(dims)), host, bad, "plain"


def inj_output_only_flattened(rnd):
    # Z[m, n(, p)] = A[k] * B[k]: M, N (P) are output-only
    no = rnd.choice([2, 2, 3])
    outs = ["M", "N", "P"][:no]
    decl = {"A": ["K"], "B": ["K"], "Z": list(outs)}
    if rnd.random() < 0.5:
        decl["A"] = ["K", "J"]
        decl["B"] = ["J", "K"]
    inr = list(decl["A"])
    for r in decl["B"]:
        if r not in inr:
            inr.append(r)
    e = Einsum(_acc("Z", outs), [Term("times", [_acc("A", decl["A"]), _acc("B", decl["B"])])])
    s = Spec(decl, [e])
    host = s.clone()
    host.loop_order = {"Z": rnd.sample(outs + inr, len(outs + inr))}
    tup = rnd.sample(outs, rnd.randint(2, no))
    flat = "".join(tup)
    rest = [r for r in outs if r not in tup] + inr
    lo = list(rest)
    lo.insert(rnd.randint(0, len(lo)), flat)
    bad = s.clone()
    bad.partitioning = {"Z": {"(%s)" % ", ".join(tup): ["flatten()"]}}
    bad.loop_order = {"Z": lo}
    return "iterates-output-only-flattened-rank", "%d-ranks@%d" % (len(tup), lo.index(flat)), \
        host, bad, "plain"


def inj_no_accel_config(rnd):
    n = rnd.choice([1, 2, 2, 3])
    decl = {}
    exprs = []
    names = ["T", "U", "Z"][:n] if n > 1 else ["Z"]
    prev = None
    for i, o in enumerate(names):
        a = "A%d" % i
        decl[a] = ["M"]
        fs = [_acc(a, ["M"])]
        if prev:
            fs.append(_acc(prev, ["M"]))
        decl[o] = ["M"]
        exprs.append(Einsum(_acc(o, ["M"]), [Term("times", fs)]))
        prev = o
    st = {o: {"space": [], "time": ["M"]} for o in names}
    victim = rnd.randrange(n)
    other_binding = rnd.random() < 0.6
    # the Einsum may also be absent from the bindings altogether (only possible when another
    # Einsum keeps the section non-empty)
    absent = n > 1 and rnd.random() < 0.35

    def bindings(missing):
        y = "bindings:\n"
        for i, o in enumerate(names):
            if i == missing and absent:
                continue
            y += "  %s:\n" % o
            if i != missing:
                y += "  - config: accel\n    prefix: tmp/%s\n" % o
            if i == missing and not other_binding:
                y += "  - component: MUL\n    bindings:\n    - op: mul\n"
            elif other_binding:
                y += "  - component: MUL\n    bindings:\n    - op: mul\n"
        return y
    fmt = "format:\n" + "".join(
        "  %s:\n    default:\n      rank-order: [M]\n      M:\n        format: C\n" % o
        for o in names)
    host = Spec(decl, exprs, spacetime=st, extra=ARCH + bindings(-1) + fmt)
    bad = Spec(decl, exprs, spacetime=st, extra=ARCH + bindings(victim) + fmt)
    return "einsum-without-accelerator-config", "einsum%d/%d%s" % (
        victim, n, "-no-entry-at-all" if absent else ""), host, bad, "metrics"


INJECTORS = [inj_dup_rank, inj_undeclared, inj_repeated, inj_terms_differ, inj_flatten_combined,
             inj_flatten_one_rank, inj_flatten_index_math, inj_flatten_indep,
             inj_flatten_flattened, inj_nway_after_occ, inj_nway_after_followed_occ,
             inj_shape_after_flatten,
             inj_nonflatten_on_tuple, inj_project_into_output, inj_output_only_flattened,
             inj_no_accel_config]
