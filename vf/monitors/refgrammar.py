"""Independent reference recognisers for the five specification grammars
(hand-written tokenizer + recursive descent; no lark, nothing from /repo).

Each `parse_*` returns a plain structure or raises Reject.  Structures:
  einsum   : {"out": (name, [iexpr]), "terms": [("times"|"take", [factor], sel)]}
             factor = ("var", name) | ("tensor", name, [iexpr]); iexpr = [(coef, var)]
  directive: ("uniform_shape"|"nway_shape", size) | ("uniform_occupancy", leader, size)
             | ("flatten",) | ("follow", leader); size = int | str
  ranks    : [name, ...]
  stamp    : (rank, "pos"|"coord")
  level    : (name, instances)
"""
import re


class Reject(Exception):
    pass


class Unknown(Exception):
    """The string uses something this reference does not model (floats)."""


NAME = re.compile(r"[A-Za-z_][A-Za-z0-9_]*")
INT = re.compile(r"[0-9]+")
WS = " \t"


def _tokens(s, literals):
    """Greedy tokenizer: multi-character literals first (longest first),
    then NAME, INT, single characters.  Whitespace separates tokens."""
    lits = sorted(literals, key=len, reverse=True)
    out = []
    i = 0
    while i < len(s):
        c = s[i]
        if c in WS:
            i += 1
            continue
        if c in "\n\r\f\v" or ord(c) > 127:
            raise Reject("newline or non-ASCII character")
        for l in lits:
            if s.startswith(l, i):
                # a keyword literal ending in "(" only counts when what precedes is
                # not part of a longer NAME (e.g. xtake( is NAME then junk)
                out.append(("LIT", l))
                i += len(l)
                break
        else:
            m = NAME.match(s, i)
            if m:
                out.append(("NAME", m.group(0)))
                i = m.end()
                continue
            m = INT.match(s, i)
            if m:
                j = m.end()
                if j < len(s) and (s[j] == "." or s[j] in "eE"):
                    raise Unknown("float-like number")
                out.append(("INT", m.group(0)))
                i = j
                continue
            if c == ".":
                raise Unknown("dot")
            out.append(("CH", c))
            i += 1
    return out


class _P:
    def __init__(self, toks):
        self.t = toks
        self.i = 0

    def peek(self):
        return self.t[self.i] if self.i < len(self.t) else (None, None)

    def take(self, kind=None, val=None):
        k, v = self.peek()
        if k is None or (kind and k != kind) or (val is not None and v != val):
            raise Reject("expected %s %s at %d, got %s %s" % (kind, val, self.i, k, v))
        self.i += 1
        return v

    def at(self, kind, val=None):
        k, v = self.peek()
        return k == kind and (val is None or v == val)

    def end(self):
        if self.i != len(self.t):
            raise Reject("trailing tokens")


# ------------------------------------------------------------------ einsum

def _name_then_keyword_guard(s):
    # "take(" is a literal; a NAME that merely starts with take (take1[m]) is a NAME
    pass


def _einsum_tokens(s):
    toks = []
    i = 0
    n = len(s)
    while i < n:
        c = s[i]
        if c in WS:
            i += 1
            continue
        if c in "\n\r\f\v" or ord(c) > 127:
            raise Reject("newline or non-ASCII character")
        if s.startswith("take(", i) and (i == 0 or not (s[i - 1].isalnum() or s[i - 1] == "_")):
            toks.append(("LIT", "take("))
            i += 5
            continue
        m = NAME.match(s, i)
        if m:
            toks.append(("NAME", m.group(0)))
            i = m.end()
            continue
        m = INT.match(s, i)
        if m:
            j = m.end()
            if j < n and (s[j] == "." or s[j] in "eE"):
                raise Unknown("float-like number")
            if j < n and (s[j].isalpha() or s[j] == "_"):
                # "2m": NUMBER immediately followed by NAME: two tokens
                pass
            toks.append(("INT", m.group(0)))
            i = j
            continue
        if c == ".":
            raise Unknown("dot")
        toks.append(("CH", c))
        i += 1
    return toks


def parse_einsum(s):
    p = _P(_einsum_tokens(s))

    def iterm():
        if p.at("NAME"):
            return (1, p.take("NAME"))
        neg = False
        if p.at("CH", "-"):
            p.take()
            neg = True
        v = int(p.take("INT"))
        p.take("CH", "*")
        return (-v if neg else v, p.take("NAME"))

    def iexpr():
        out = [iterm()]
        while p.at("CH", "+"):
            p.take()
            out.append(iterm())
        return out

    def ranks():
        p.take("CH", "[")
        out = []
        if not p.at("CH", "]"):
            out.append(iexpr())
            while p.at("CH", ","):
                p.take()
                out.append(iexpr())
        p.take("CH", "]")
        return out

    def factor():
        n = p.take("NAME")
        if p.at("CH", "["):
            return ("tensor", n, ranks())
        return ("var", n)

    def term():
        if p.at("LIT", "take("):
            p.take()
            fs = [factor()]
            p.take("CH", ",")
            while True:
                if p.at("INT"):
                    sel = int(p.take("INT"))
                    break
                fs.append(factor())
                p.take("CH", ",")
            p.take("CH", ")")
            return ("take", fs, sel)
        fs = [factor()]
        while p.at("CH", "*"):
            p.take()
            fs.append(factor())
        return ("times", fs, None)

    on = p.take("NAME")
    oranks = ranks()
    p.take("CH", "=")
    terms = [term()]
    while p.at("CH", "+"):
        p.take()
        terms.append(term())
    p.end()
    return {"out": (on, oranks), "terms": terms}


# --------------------------------------------------------------- directive

_DIR = ["nway_shape(", "uniform_occupancy(", "uniform_shape(", "flatten(", "follow("]


def _kw_tokens(s, kws):
    toks = []
    i, n = 0, len(s)
    while i < n:
        c = s[i]
        if c in WS:
            i += 1
            continue
        if c in "\n\r\f\v" or ord(c) > 127:
            raise Reject("newline or non-ASCII character")
        hit = None
        for k in sorted(kws, key=len, reverse=True):
            if s.startswith(k, i) and (i == 0 or not k[0].isalpha() or
                                       not (s[i - 1].isalnum() or s[i - 1] == "_")):
                hit = k
                break
        if hit:
            toks.append(("LIT", hit))
            i += len(hit)
            continue
        m = NAME.match(s, i)
        if m:
            toks.append(("NAME", m.group(0)))
            i = m.end()
            continue
        m = INT.match(s, i)
        if m:
            j = m.end()
            if j < n and s[j] in "eE":
                raise Unknown("float-like")
            toks.append(("INT", m.group(0)))
            i = j
            continue
        toks.append(("CH", c))
        i += 1
    return toks


def parse_directive(s):
    toks = _kw_tokens(s, _DIR)
    # NUMBER may be a float in the real grammar (5.2): INT "." INT
    for a, b in zip(toks, toks[1:]):
        if a[0] == "INT" and b == ("CH", "."):
            raise Unknown("float-like")
        if a == ("CH", ".") and b[0] == "INT" and toks.index(a) > 0 and \
                toks[toks.index(a) - 1][0] != "NAME":
            raise Unknown("float-like")
    p = _P(toks)

    def size():
        if p.at("INT"):
            return int(p.take("INT"))
        return p.take("NAME")
    k = p.take("LIT")
    if k == "flatten(":
        p.take("CH", ")")
        p.end()
        return ("flatten",)
    if k == "follow(":
        n = p.take("NAME")
        p.take("CH", ")")
        p.end()
        return ("follow", n)
    if k == "uniform_occupancy(":
        l = p.take("NAME")
        p.take("CH", ".")
        sz = size()
        if p.at("CH", "."):
            raise Unknown("float-like size")
        p.take("CH", ")")
        p.end()
        return ("uniform_occupancy", l, sz)
    sz = size()
    p.take("CH", ")")
    p.end()
    return (k[:-1], sz)


def parse_ranks(s):
    p = _P(_kw_tokens(s, []))
    if p.at("NAME"):
        n = p.take("NAME")
        p.end()
        return [n]
    p.take("CH", "(")
    out = [p.take("NAME")]
    p.take("CH", ",")
    out.append(p.take("NAME"))
    while p.at("CH", ","):
        p.take()
        out.append(p.take("NAME"))
    p.take("CH", ")")
    p.end()
    return out


def parse_stamp(s):
    toks = _kw_tokens(s, [".pos", ".coord"])
    p = _P(toks)
    n = p.take("NAME")
    style = "pos"
    if p.at("LIT"):
        style = p.take("LIT")[1:]
    p.end()
    # ".pos" / ".coord" are single tokens: ".posx" must not be read as ".pos" + NAME
    m = re.search(r"\.(pos|coord)", s)
    if m and m.end() < len(s) and (s[m.end()].isalnum() or s[m.end()] == "_"):
        raise Reject("keyword runs into a name")
    return (n, style)


def parse_level(s):
    toks = _kw_tokens(s, ["[0.."])
    p = _P(toks)
    n = p.take("NAME")
    if p.peek()[0] is None:
        return (n, 1)
    p.take("LIT", "[0..")
    if p.at("CH", "."):
        raise Unknown("float-like")
    v = int(p.take("INT"))
    if p.at("CH", "."):
        raise Unknown("float-like")
    p.take("CH", "]")
    p.end()
    return (n, v + 1)
