"""Recording stand-ins for the non-tensor names an emitted program may call:
createCanvas / displayCanvas (spacetime mode) and Metrics / Traffic / Format /
Compute / *Intersector (metrics mode).  They observe; they never influence
the tensors the program computes."""
from . import model


class Canvas:
    def __init__(self, log, tensors):
        self.log = log
        self.tensors = tensors
        self.acts = []
        self.displayed = 0

    def addActivity(self, *points, spacetime=None, **kw):
        self.acts.append((points, spacetime))
        self.log.ev("addActivity", points=points, spacetime=spacetime)


class CanvasEnv:
    def __init__(self, log):
        self.log = log
        self.canvases = []

    def createCanvas(self, *tensors, **kw):
        c = Canvas(self.log, tensors)
        self.canvases.append(c)
        self.log.ev("createCanvas", n=len(tensors),
                    rank_ids=[list(t.getRankIds()) if isinstance(t, model.Tensor) else None
                              for t in tensors],
                    names=[t.name if isinstance(t, model.Tensor) else None for t in tensors])
        return c

    def displayCanvas(self, c, **kw):
        if isinstance(c, Canvas):
            c.displayed += 1
        self.log.ev("displayCanvas", ok=isinstance(c, Canvas))

    def names(self):
        return {"createCanvas": self.createCanvas, "displayCanvas": self.displayCanvas}


# ------------------------------------------------------------------ metrics

class PrimeSource:
    """Distinct primes, so that sums/maxima cannot coincide by accident."""

    def __init__(self, start=101):
        self.n = start

    def next(self):
        n = self.n
        while True:
            n += 1
            if all(n % d for d in range(2, int(n ** 0.5) + 1)):
                self.n = n
                return n


class _DumpDict(dict):
    """metrics dump: any key path yields a (logged) distinct prime."""

    def __init__(self, env, path):
        super().__init__()
        self.env = env
        self.path = path

    def __missing__(self, k):
        path = self.path + (k,)
        if len(path) < self.env.dump_depth(path):
            v = _DumpDict(self.env, path)
        else:
            v = self.env._val("dump", path)
            self.env.log.ev("dump_read", path=path, value=v)
            self.env.dump_values[path] = v
        self[k] = v
        return v

    def __contains__(self, k):
        return True


class HashSource:
    """Values that are a deterministic function of the call's content (not of
    the call order), so that two differently ordered but equivalent programs
    produce the same metrics dictionary."""

    def __init__(self):
        self.key = None

    def at(self, *key):
        self.key = key
        return self

    def next(self):
        import hashlib
        h = hashlib.sha1(repr(self.key).encode()).hexdigest()
        return 1009 + int(h[:8], 16) % 90001


class MetricsEnv:
    """Namespace entries for metrics mode."""

    def __init__(self, log, inert=False, content_addressed=False):
        self.log = log
        self.primes = HashSource() if content_addressed else PrimeSource()
        self.content_addressed = content_addressed
        self.inert = inert
        self.dump_values = {}
        self.traffic_values = []
        self.isects = []
        self.collecting = False
        env = self

        class _Metrics:
            @staticmethod
            def beginCollect(prefix=None, *a, **k):
                env.collecting = True
                log.ev("beginCollect", prefix=prefix)

            @staticmethod
            def endCollect(*a, **k):
                env.collecting = False
                log.ev("endCollect")

            @staticmethod
            def trace(rank, type_=None, consumable=False, **k):
                log.ev("trace", rank=rank, type_=type_, consumable=consumable)

            @staticmethod
            def registerRank(rank, *a, **k):
                log.ev("registerRank", rank=rank)

            @staticmethod
            def matchRanks(a, b, *r, **k):
                log.ev("matchRanks", a=a, b=b)

            @staticmethod
            def associateShape(a, b, *r, **k):
                log.ev("associateShape", a=a, b=b)

            @staticmethod
            def consumeTrace(rank, type_, *a, **k):
                log.ev("consumeTrace", rank=rank, type_=type_)
                return ("consumed", rank, type_)

            @staticmethod
            def getIter(*a, **k):
                log.ev("getIter")
                return [0]

            @staticmethod
            def dump(*a, **k):
                log.ev("dump")
                return _DumpDict(env, ())

            @staticmethod
            def isCollecting():
                return env.collecting

            @staticmethod
            def addUse(*a, **k):
                log.ev("addUse", args=a)

            @staticmethod
            def incCount(*a, **k):
                log.ev("incCount", args=a)

        class _Traffic:
            @staticmethod
            def filterTrace(a, b, c, *r, **k):
                log.ev("filterTrace", input=a, filter=b, output=c)

            @staticmethod
            def buffetTraffic(bindings, formats, traces, *a, **k):
                return env._traffic("buffet", bindings, formats, traces, a)

            @staticmethod
            def cacheTraffic(bindings, formats, traces, *a, **k):
                return env._traffic("cache", bindings, formats, traces, a)

            @staticmethod
            def streamTraffic(*a, **k):
                log.ev("streamTraffic", args=len(a))
                return env._val("stream", len(a))

        class _Compute:
            @staticmethod
            def numSwaps(*a, **k):
                v = env._val("numSwaps", [x for x in a if isinstance(x, (int, float, str))],
                             [getattr(x, "name", None) for x in a])
                log.ev("numSwaps", value=v, args=[x for x in a if isinstance(x, (int, float, str))])
                return v

            @staticmethod
            def numIters(f, *a, **k):
                v = env._val("numIters", f)
                log.ev("numIters", file=f, value=v)
                return v

        def _mk_isect(kind):
            class _I:
                def __init__(self, *a, **k):
                    self.kind = kind
                    self.fed = 0
                    self.fed_args = set()
                    self.idx = len(env.isects)
                    env.isects.append(self)
                    log.ev("isect_new", kind=kind, idx=self.idx)

                def addTraces(self, *a, **k):
                    self.fed += 1
                    self.fed_args.add(repr(a))
                    log.ev("addTraces", idx=self.idx, n=len(a), args=a)

                def getNumIntersects(self, *a, **k):
                    v = env._val("isect", self.kind, sorted(self.fed_args), self.fed)
                    log.ev("getNumIntersects", idx=self.idx, value=v)
                    return v
            _I.__name__ = kind
            return _I

        def _Format(tensor, spec, *a, **k):
            log.ev("Format", tensor=getattr(tensor, "name", None))
            return ("format", getattr(tensor, "name", None))

        self._names = {"Metrics": _Metrics, "Traffic": _Traffic, "Compute": _Compute,
                       "Format": _Format,
                       "LeaderFollowerIntersector": _mk_isect("LeaderFollowerIntersector"),
                       "SkipAheadIntersector": _mk_isect("SkipAheadIntersector"),
                       "TwoFingerIntersector": _mk_isect("TwoFingerIntersector")}

    def _val(self, *key):
        if self.content_addressed:
            return self.primes.at(*key).next()
        return self.primes.next()

    def dump_depth(self, path):
        # Metrics.dump()["Compute"]["payload_mul"] etc.: two levels
        return 2

    def _traffic(self, kind, bindings, formats, traces, extra):
        self.log.ev(kind + "Traffic", bindings=bindings, traces=dict(traces), extra=len(extra))
        out = {}
        tr = sorted((repr(k), v) for k, v in dict(traces).items())
        for b in bindings:
            t = b["tensor"] if isinstance(b, dict) else str(b)
            out[t] = {"read": self._val(kind, t, tr, "read"), "write": self._val(kind, t, tr, "write")}
        self.traffic_values.append((kind, out))
        return [out]

    def names(self):
        return dict(self._names)
