"""Structured specifications (the generator's own view of a TeAAL spec).

Everything the oracles need (dense evaluation, supplied-name set, default
mapping) is derived from these structures, never from the compiler's parse.
"""
import copy


class Acc:
    """Tensor access  Name[idx0, idx1, ...]; each idx is an ordered list of
    (coef, var) pairs meaning sum(coef*var); var is a lower-case index."""

    def __init__(self, name, idx):
        self.name = name
        self.idx = [list(map(tuple, i)) for i in idx]

    def vars(self):
        out = []
        for i in self.idx:
            for _, v in i:
                if v not in out:
                    out.append(v)
        return out

    @staticmethod
    def idx_text(i, explicit_one=False):
        parts = []
        for c, v in i:
            if c == 1 and not explicit_one:
                parts.append(v)
            else:
                parts.append("%d * %s" % (c, v))
        return " + ".join(parts)

    def text(self):
        return "%s[%s]" % (self.name, ", ".join(self.idx_text(i) for i in self.idx))

    def to_json(self):
        return {"name": self.name, "idx": [[list(t) for t in i] for i in self.idx]}

    @staticmethod
    def from_json(j):
        return Acc(j["name"], [[tuple(t) for t in i] for i in j["idx"]])


class Term:
    """kind 'times' or 'take'; factors: list of Acc or str (scalar var)."""

    def __init__(self, kind, factors, sel=None):
        self.kind = kind
        self.factors = list(factors)
        self.sel = sel

    def text(self):
        fs = [f if isinstance(f, str) else f.text() for f in self.factors]
        if self.kind == "take":
            return "take(%s, %d)" % (", ".join(fs), self.sel)
        return " * ".join(fs)

    def tensors(self):
        return [f for f in self.factors if not isinstance(f, str)]

    def scalars(self):
        return [f for f in self.factors if isinstance(f, str)]

    def to_json(self):
        return {"kind": self.kind, "sel": self.sel,
                "factors": [f if isinstance(f, str) else f.to_json() for f in self.factors]}

    @staticmethod
    def from_json(j):
        return Term(j["kind"], [f if isinstance(f, str) else Acc.from_json(f)
                                for f in j["factors"]], j["sel"])


class Einsum:
    def __init__(self, out, terms):
        self.out = out
        self.terms = list(terms)

    def text(self):
        return "%s = %s" % (self.out.text(), " + ".join(t.text() for t in self.terms))

    def vars(self):
        out = []
        for v in self.out.vars():
            if v not in out:
                out.append(v)
        for t in self.terms:
            for f in t.tensors():
                for v in f.vars():
                    if v not in out:
                        out.append(v)
        return out

    def inputs(self):
        return [f for t in self.terms for f in t.tensors()]

    def to_json(self):
        return {"out": self.out.to_json(), "terms": [t.to_json() for t in self.terms]}

    @staticmethod
    def from_json(j):
        return Einsum(Acc.from_json(j["out"]), [Term.from_json(t) for t in j["terms"]])


class Spec:
    """A whole specification.

    decl        : ordered {tensor: [RANK,...]}
    exprs       : [Einsum]
    rank_order  : {tensor: [RANK,...]}            (None = section omitted)
    partitioning: {out: ordered {rankkey: [directive,...]}}  (None = omitted)
    loop_order  : {out: [RANK,...]}               (None = omitted)
    spacetime   : {out: {"space":[...], "time":[...], "opt": ...}} (None = omitted)
    extra       : raw YAML text appended (architecture / bindings / format)
    syms        : {symbol: int}  values of symbolic partition sizes
    """

    def __init__(self, decl, exprs, rank_order=None, partitioning=None,
                 loop_order=None, spacetime=None, extra="", syms=None, tags=None):
        self.decl = dict(decl)
        self.exprs = list(exprs)
        self.rank_order = rank_order
        self.partitioning = partitioning
        self.loop_order = loop_order
        self.spacetime = spacetime
        self.extra = extra
        self.syms = dict(syms or {})
        self.tags = list(tags or [])

    def clone(self):
        return copy.deepcopy(self)

    # ---- derived facts
    def outputs(self):
        return [e.out.name for e in self.exprs]

    def order_of(self, name):
        if self.rank_order and name in self.rank_order:
            return list(self.rank_order[name])
        return list(self.decl[name])

    def user_inputs(self):
        """Tensors that must be supplied: read before (or never) produced."""
        produced = set()
        need = []
        for e in self.exprs:
            for a in e.inputs():
                if a.name not in produced and a.name not in need:
                    need.append(a.name)
            produced.add(e.out.name)
        return need

    def scalars(self):
        out = []
        for e in self.exprs:
            for t in e.terms:
                for s in t.scalars():
                    if s not in out:
                        out.append(s)
        return out

    def all_ranks(self):
        out = []
        for rs in self.decl.values():
            for r in rs:
                if r not in out:
                    out.append(r)
        return out

    # ---- YAML
    def yaml(self):
        y = ["einsum:", "  declaration:"]
        for n, rs in self.decl.items():
            y.append("    %s: [%s]" % (n, ", ".join(rs)))
        y.append("  expressions:")
        for e in self.exprs:
            y.append("    - %s" % e.text())
        m = []
        if self.rank_order is not None:
            m.append("  rank-order:")
            for n, rs in self.rank_order.items():
                m.append("    %s: [%s]" % (n, ", ".join(rs)))
        if self.partitioning is not None:
            m.append("  partitioning:")
            for o, parts in self.partitioning.items():
                if not parts:
                    m.append("    %s: {}" % o)
                    continue
                m.append("    %s:" % o)
                for k, ds in parts.items():
                    m.append("      %s: [%s]" % (k, ", ".join(ds)))
        if self.loop_order is not None:
            m.append("  loop-order:")
            for o, rs in self.loop_order.items():
                m.append("    %s: [%s]" % (o, ", ".join(rs)))
        if self.spacetime is not None:
            m.append("  spacetime:")
            for o, st in self.spacetime.items():
                m.append("    %s:" % o)
                m.append("      space: [%s]" % ", ".join(st["space"]))
                m.append("      time: [%s]" % ", ".join(st["time"]))
                if st.get("opt"):
                    m.append("      opt: %s" % st["opt"])
        if m:
            y.append("mapping:")
            y.extend(m)
        text = "\n".join(y) + "\n"
        if self.extra:
            text += self.extra
        return text

    def to_json(self):
        return {"decl": self.decl, "exprs": [e.to_json() for e in self.exprs],
                "rank_order": self.rank_order, "partitioning": self.partitioning,
                "loop_order": self.loop_order, "spacetime": self.spacetime,
                "extra": self.extra, "syms": self.syms, "tags": self.tags}

    @staticmethod
    def from_json(j):
        return Spec(j["decl"], [Einsum.from_json(e) for e in j["exprs"]],
                    j["rank_order"], j["partitioning"], j["loop_order"],
                    j["spacetime"], j.get("extra", ""), j.get("syms"), j.get("tags"))
