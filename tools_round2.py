"""Verify round-2 seeded changes (/tmp/seed2) and store the valid ones as
/verif/seeded/<prop>-<3|4>/."""
import json, os, shutil, sys, queue
from concurrent.futures import ThreadPoolExecutor
sys.path.insert(0, "/verif")
import tools_seeded as T

def main():
    SD = sys.argv[1] if len(sys.argv) > 1 else "/tmp/seed2"
    OFF = int(sys.argv[2]) if len(sys.argv) > 2 else 2
    nslots = 6
    T.sh("mkdir -p /tmp/wtv")
    for s in range(nslots):
        if not os.path.isdir("/tmp/wtv/%d" % s):
            T.sh("git -C /repo worktree add -q --detach /tmp/wtv/%d HEAD" % s)
    jobs = [("C%02d" % i, n) for i in range(1, 20) for n in (1, 2)
            if os.path.exists(SD + "/C%02d/patch%d.diff" % (i, n)) and
            not os.path.exists("/verif/seeded/C%02d-%d/meta.json" % (i, n + OFF))]
    if len(sys.argv) > 3:
        only = sys.argv[3].split(",")
        jobs = [j for j in jobs if j[0] in only]
    q = queue.Queue()
    for s in range(nslots):
        q.put(s)
    def run(job):
        s = q.get()
        try:
            return job, T.verify(job[0], job[1], s, SD)
        finally:
            q.put(s)
    ver = json.load(open("/verif/seeded/verification.json"))
    with ThreadPoolExecutor(nslots) as ex:
        for (pid, n), r in ex.map(run, jobs):
            if not r:
                continue
            print(pid, n + OFF, "valid" if r.get("valid") else "INVALID",
                  {k: r.get(k) for k in ("applies", "tests_rc", "demo_clean_rc", "demo_patched_rc")}, flush=True)
            r["n"] = n + OFF
            ver = [v for v in ver if (v["property"], v["n"]) != (pid, n + OFF)] + [r]
            if r.get("valid"):
                d = "/verif/seeded/%s-%d" % (pid, n + OFF)
                os.makedirs(d, exist_ok=True)
                shutil.copy(SD + "/%s/patch%d.diff" % (pid, n), d + "/patch.diff")
                shutil.copy(SD + "/%s/demo%d.py" % (pid, n), d + "/demo.py")
                notes = SD + "/%s/notes%d.md" % (pid, n)
                needs = "see notes.md"
                if os.path.exists(notes):
                    shutil.copy(notes, d + "/notes.md")
                meta = {"id": "%s-%d" % (pid, n + OFF), "breaks_property": pid, "round": int(os.environ.get("SEED_ROUND", 1 + OFF // 2)),
                        "needs_to_manifest": needs,
                        "origin": "later round: independent sub-agent given the property text, a scratch worktree and a one-line list of the round-1 changes to avoid",
                        "verified": {"how": "tools_round2.py in a scratch git worktree of /repo",
                                     "patch_applies": r["applies"], "test_suite_with_patch": r["tests_tail"],
                                     "demo_on_clean_tree_exit": r["demo_clean_rc"],
                                     "demo_with_patch_exit": r["demo_patched_rc"]},
                        "commands": ["git -C <worktree> apply patch.diff",
                                     "PYTHONPATH=<worktree> /venv/bin/python -m pytest -q -p no:cacheprovider",
                                     "PYTHONPATH=<worktree> /venv/bin/python demo.py"]}
                json.dump(meta, open(d + "/meta.json", "w"), indent=1)
    json.dump(ver, open("/verif/seeded/verification.json", "w"), indent=1)
    for s in range(nslots):
        T.sh("git -C /repo worktree remove --force /tmp/wtv/%d" % s)

if __name__ == "__main__":
    main()
