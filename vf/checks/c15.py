"""C15 - compilation does not mutate its inputs and is repeatable.

Events: deep structural snapshots of the parsed Einsum, Mapping, Architecture,
Bindings and Format objects (every attribute reachable through vars(),
recursively, Lark trees included) taken before and after HiFiber(...); the
text of a second and third HiFiber(...) on the SAME objects; the text of a
spec compiled after k unrelated compilations in the same interpreter versus
the text obtained from a fresh interpreter process.
Oracle: snapshots equal; every re-compilation succeeds with identical text;
history independence."""
import json
import os
import random
import subprocess
import sys

from .. import case as C, run, corpus
from . import common, mcommon

ID = "C15"
NEEDS_MODEL = False
LEVEL = "exploration"
N = {"quick": 480, "thorough": 24000}
TECHNIQUE = ("runtime monitoring: before/after deep-snapshot monitor on the real parsed objects, "
             "repeated and interleaved compilations in one interpreter, differential against a "
             "fresh process")


def snap(o, depth=0, seen=None):
    """Deep, order-preserving, comparable snapshot."""
    from lark.tree import Tree
    from lark.lexer import Token
    if depth > 40:
        return "<deep>"
    if isinstance(o, Token):
        return ("tok", str(o.type), str(o))
    if isinstance(o, Tree):
        return ("tree", str(o.data), tuple(snap(c, depth + 1) for c in o.children))
    if isinstance(o, dict):
        return ("dict", tuple((snap(k, depth + 1), snap(v, depth + 1)) for k, v in o.items()))
    if isinstance(o, (list, tuple)):
        return (type(o).__name__, tuple(snap(x, depth + 1) for x in o))
    if isinstance(o, (set, frozenset)):
        return ("set", tuple(sorted(repr(snap(x, depth + 1)) for x in o)))
    if isinstance(o, (int, float, bool)):
        # type-sensitive: 1000 and 1000.0 compare equal but are observably different values
        return ("num", type(o).__name__, o)
    if isinstance(o, str) or o is None:
        return o
    if hasattr(o, "__dict__"):
        return (type(o).__name__, tuple((k, snap(v, depth + 1)) for k, v in sorted(vars(o).items())))
    return repr(o)


def first_diff(a, b, path=""):
    if a == b:
        return None
    if isinstance(a, tuple) and isinstance(b, tuple) and len(a) == len(b):
        for i, (x, y) in enumerate(zip(a, b)):
            d = first_diff(x, y, path + "/%d" % i)
            if d:
                return d
    return {"path": path, "before": repr(a)[:200], "after": repr(b)[:200]}


def parse_all(y, mode):
    import copy
    Einsum, Mapping, Architecture, Bindings, Format, HiFiber = run.teaal_modules()
    from teaal.parse.yaml import YamlParser
    d = YamlParser.parse_str(y)
    objs = [Einsum(copy.deepcopy(d)), Mapping(copy.deepcopy(d))]
    if mode == "metrics":
        objs += [Architecture(copy.deepcopy(d)), Bindings(copy.deepcopy(d)),
                 Format(copy.deepcopy(d))]
    return objs, HiFiber


NAMES = ["Einsum", "Mapping", "Architecture", "Bindings", "Format"]


def check_objects(st, cls, spec, mode):
    cs = C.Case(spec, {}, {}, {}, mode)
    out = C.Outcome()
    y = spec.yaml()
    try:
        objs, HiFiber = parse_all(y, mode)
        before = [snap(o) for o in objs]
        t1 = str(HiFiber(*objs))
    except Exception as e:  # refusal or crash on the first compile: nothing to repeat
        out.status = "rejected" if type(e).__name__ in ("ValueError", "NotImplementedError") \
            else "crash"
        out.message = "%s: %s" % (type(e).__name__, e)
        out.compiled = run.Compiled(error=str(e), etype=type(e).__name__)
        st.account(ID, cs, out, None, mode_key=mode)
        return ("ERR", out.message)
    out.status = "ok"
    out.nontrivial = True
    out.compiled = run.Compiled(None, t1)
    after = [snap(o) for o in objs]
    st.bump("monitor", "snapshots", len(objs))
    for nm, a, b in zip(NAMES, before, after):
        d = first_diff(a, b)
        if d:
            out.problems.append(dict(d, kind="input-object-mutated", object=nm))
    for k in (2, 3):
        try:
            tk = str(HiFiber(*objs))
            st.bump("monitor", "recompilations")
            if tk != t1:
                la, lb = t1.splitlines(), tk.splitlines()
                j = next((j for j in range(min(len(la), len(lb))) if la[j] != lb[j]),
                         min(len(la), len(lb)))
                out.problems.append({"kind": "recompilation-differs", "attempt": k, "line": j,
                                     "first": la[j:j + 1], "again": lb[j:j + 1]})
        except Exception as e:
            out.problems.append({"kind": "recompilation-fails", "attempt": k,
                                 "error": "%s: %s" % (type(e).__name__, e)})
            break
    final = [snap(o) for o in objs]
    for nm, a, b in zip(NAMES, before, final):
        if a != b and not any(p.get("object") == nm for p in out.problems):
            out.problems.append(dict(first_diff(a, b), kind="input-object-mutated-by-recompile",
                                     object=nm))
    st.bump("class_ok", cls + "/" + mode)
    st.account(ID, cs, out, None, mode_key=mode)
    return t1


def rename_ranks(spec, rnd):
    """Same Einsum text, but the ranks of the accessed (index-math) tensor are
    declared under other names."""
    import re
    s = spec.clone()
    ren = {}
    fresh = iter(["U", "V", "G", "L", "D", "E"])
    for r in s.decl.get("I", []):
        if r != "C":
            ren[r] = next(fresh)
    def rn(x):
        m = re.match(r"^([A-Z]+?)(\d*)$", x)
        if m and m.group(1) in ren:
            return ren[m.group(1)] + m.group(2)
        return x
    s.decl = {t: [rn(r) for r in rs] for t, rs in s.decl.items()}
    if s.partitioning:
        s.partitioning = {o: {rn(k): [re.sub(r"follow\((\w+)\)", lambda m: "follow(%s)" % rn(m.group(1)), d)
                                      for d in ds] for k, ds in ps.items()}
                          for o, ps in s.partitioning.items()}
    if s.loop_order:
        s.loop_order = {o: [rn(r) for r in lo] for o, lo in s.loop_order.items()}
    s.tags = list(s.tags) + ["renamed-twin"]
    return s


def fresh_texts(items):
    """Compile each (yaml, mode) in its own fresh interpreter chunk."""
    code = ("import sys, json\nsys.path.insert(0, %r)\nfrom vf import run\n"
            "items = json.load(sys.stdin)\nout = []\n"
            "for y, m in items:\n    c = run.compile_yaml(y, m)\n    out.append(c.text if c.ok else None)\n"
            "print(json.dumps(out))\n") % os.path.dirname(os.path.dirname(os.path.dirname(
                os.path.abspath(__file__))))
    res = []
    # one fresh process per item would be slow (imports); the history a fresh process has
    # seen is still "nothing": so compile each item FIRST in its own process for a sample,
    # and the rest in small batches whose order is reversed relative to the in-process history
    env = dict(os.environ)
    for chunk in items:
        r = subprocess.run([sys.executable, "-c", code], input=json.dumps(chunk), text=True,
                           capture_output=True, env=env, timeout=600)
        if r.returncode != 0:
            res.append(None)
        else:
            res.append(json.loads(r.stdout.strip().splitlines()[-1]))
    return res


def shard(tier, seed, shard, nshards):
    st = common.Stats()
    n = N[tier] // nshards
    history = []
    if shard == 0:
        for s in mcommon.accel_specs():
            for m in ("metrics", "plain"):
                s2 = s.clone()
                if m == "plain":
                    s2.extra = ""
                    s2.spacetime = None
                t = check_objects(st, "accel", s2, m)
                history.append((s2, m, t))
    for i in range(n):
        it = corpus.item(ID, seed, shard, i)
        if it is None:
            continue
        cls, spec, mode, ext, rnd = it
        if mode == "metrics" and rnd.random() < 0.3 and "clock_frequency" in (spec.extra or ""):
            # a clock frequency written in scientific notation reaches the compiler as a float
            import re
            spec = spec.clone()
            spec.extra = re.sub(r"clock_frequency: (\d+)\b", r"clock_frequency: \1.0e+0", spec.extra)
            spec.tags = list(spec.tags) + ["float-clock-frequency"]
        t = check_objects(st, cls, spec, mode)
        history.append((spec, mode, t))
    # renamed twins: the same index expressions on differently named ranks, compiled right
    # after each other (a process-wide cache keyed on the expression would collide)
    from ..gen import affine as GA
    for k in range(4 if tier == "quick" else 30):
        rnd2 = random.Random("%s-twin-%d-%d-%d" % (ID, seed, shard, k))
        s1, ext, info = GA.gen_affine(rnd2, rnd2.choice(["S1", "S2", "S6", "S8"]))
        s2 = rename_ranks(s1, rnd2)
        for sp in (s1, s2):
            t = check_objects(st, "twin", sp, "plain")
            history.append((sp, "plain", t))
    # a rank literally NAMED like a partition level of a spec compiled earlier in the process
    # (a process-wide name->root cache would confuse them)
    from ..gen import einsum as GE2, mapping as GM2
    from ..spec import Acc as _Acc, Term as _Term, Einsum as _Einsum, Spec as _Spec
    for k in range(3 if tier == "quick" else 20):
        rnd2 = random.Random("%s-lvl-%d-%d-%d" % (ID, seed, shard, k))
        r = rnd2.choice(["K", "M", "N"])
        o = rnd2.choice([x for x in ["K", "M", "N"] if x != r])
        lvl = r + rnd2.choice(["1", "0"])
        s1 = _Spec({"A": [r, o], "Z": [o]},
                   [_Einsum(_Acc("Z", [[(1, o.lower())]]),
                            [_Term("times", [_Acc("A", [[(1, r.lower())], [(1, o.lower())]])])])],
                   partitioning={"Z": {r: ["uniform_shape(%d)" % rnd2.randint(2, 4)]}},
                   tags=["level-name-twin"])
        s2 = _Spec({"A": [lvl, o], "Z": [o]},
                   [_Einsum(_Acc("Z", [[(1, o.lower())]]),
                            [_Term("times", [_Acc("A", [[(1, lvl.lower())], [(1, o.lower())]])])])],
                   tags=["level-name-twin"])
        for sp in ((s1, s2) if rnd2.random() < 0.5 else (s2, s1)):
            t = check_objects(st, "twin", sp, "plain")
            history.append((sp, "plain", t))
    # history independence: the same specs, first thing in a fresh interpreter
    rnd = random.Random("%s-hist-%d-%d" % (ID, seed, shard))
    sample = rnd.sample(history, min(len(history), 64 if tier == "quick" else 160))
    # (a) each alone in a fresh process; (b) in-process, after everything else, again
    # one fresh interpreter per shard; it sees the sample in REVERSE order, so the last
    # in-process item is compiled first-thing there and every item has a different history
    rev = list(reversed(sample))
    got = fresh_texts([[(s.yaml(), m) for s, m, _ in rev]])[0]
    fresh = [[x] for x in reversed(got)] if got is not None else [None] * len(sample)
    for (s, m, t), f in zip(sample, fresh):
        st.evaluations += 1
        if f is None:
            st.bump("monitor", "fresh-process-failed")
            continue
        st.bump("monitor", "fresh-process-compares")
        failed_here = isinstance(t, tuple)
        if failed_here != (f[0] is None):
            cs = C.Case(s, {}, {}, {}, m)
            st.violations.append(C.violation(
                ID, cs, [{"kind": "history-dependent-acceptance", "in_process": t if failed_here
                          else "compiled", "fresh_process": "refused" if f[0] is None else "compiled"}],
                "whether `%s` compiles depends on what was compiled before: in-process %s, fresh "
                "process %s" % ("; ".join(e.text() for e in s.exprs),
                                t[1] if failed_here else "compiled",
                                "refused" if f[0] is None else "compiled")))
            continue
        if failed_here:
            continue
        again = run.compile_yaml(s.yaml(), m)
        if f[0] != t or (again.ok and again.text != t):
            cs = C.Case(s, {}, {}, {}, m)
            st.violations.append(C.violation(
                ID, cs, [{"kind": "history-dependent-text"}],
                "text of `%s` depends on what was compiled before (fresh process %s in-process, "
                "late re-compile %s)" % ("; ".join(e.text() for e in s.exprs),
                                        "==" if f[0] == t else "!=",
                                        "==" if again.ok and again.text == t else "!=")))
    return st.result()


def replay(v):
    cs = C.Case.from_json(v["case"])
    st = common.Stats()
    check_objects(st, "replay", cs.spec, cs.mode)
    return st.violations


def finalize(results, counters, tier, seed):
    inc = []
    mon = counters.get("monitor", {})
    if mon.get("snapshots", 0) < N[tier] // 2:
        inc.append("too few snapshots: %r" % mon)
    if mon.get("recompilations", 0) == 0:
        inc.append("no recompilation happened")
    if mon.get("fresh-process-compares", 0) == 0:
        inc.append("no fresh-process comparison happened")
    if counters.get("class_ok", {}).get("metrics/metrics", 0) == 0:
        inc.append("no metrics-mode spec compiled")
    cov = {"rule": "shared corpus (all classes incl. metrics with eager bindings) + accelerator "
                   "specs; each: snapshot, compile, snapshot, compile twice more on the same "
                   "objects; per shard a sample re-compiled first-thing in a fresh interpreter and "
                   "again at the end of the shard's history; distinct = (spec, mode); non-trivial "
                   "= first compile succeeded",
           "classes": counters.get("class_ok", {})}
    return cov, ["snapshots cover every attribute reachable through vars() of the five parsed "
                 "objects (Lark trees, dicts, lists)", "PYTHONHASHSEED is pinned (0) in both the "
                 "in-process and the fresh-process compilation"], inc
