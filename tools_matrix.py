"""seeded/detection.json -> seeded/MATRIX.md"""
import json
import os

det = json.load(open("/verif/seeded/detection.json"))
rows = []
for key in sorted(det):
    pid, n = key.split(":")
    d = "/verif/seeded/%s-%s" % (pid, n)
    meta = json.load(open(d + "/meta.json")) if os.path.exists(d + "/meta.json") else {}
    cells = []
    verdict = "missed"
    for chk, r in det[key].items():
        v = {1: "VIOLATION", 2: "INCONCLUSIVE", 0: "silent"}.get(r["exit"], "exit %s" % r["exit"])
        cells.append("%s: %s%s" % (chk, v, " (%d)" % r["violations"] if r["violations"] else ""))
        if r["exit"] == 1:
            verdict = "caught"
        elif r["exit"] == 2 and verdict != "caught":
            verdict = "inconclusive"
    if verdict != "caught" and meta.get("superseded"):
        verdict = "neutralised"
    meta["detection"] = {"checks": det[key], "verdict": verdict}
    if meta.get("id"):
        json.dump(meta, open(d + "/meta.json", "w"), indent=1)
    ex = ""
    for chk, r in det[key].items():
        if r["exit"] == 1 and r.get("example"):
            ex = r["example"][0][:110].replace("|", "/")
            break
    rows.append((pid + "-" + n, meta.get("needs_to_manifest", ""), "; ".join(cells), verdict, ex))
with open("/verif/seeded/MATRIX.md", "w") as f:
    f.write("# Seeded changes x checks (quick tier, applied in a scratch worktree via VF_REPO)\n\n")
    c = sum(1 for r in rows if r[3] == "caught")
    f.write("%d changes; %d caught (VIOLATION), %d inconclusive, %d neutralised by a later "
            "fix in /repo, %d missed (all outside the statement or refusal-type, see DESIGN.md "
            "section 6).\n\n" % (
                len(rows), c, sum(1 for r in rows if r[3] == "inconclusive"),
                sum(1 for r in rows if r[3] == "neutralised"),
                sum(1 for r in rows if r[3] == "missed")))
    f.write("| change | needs, to manifest | checks run -> outcome | verdict | first witness |\n|---|---|---|---|---|\n")
    for r in rows:
        f.write("| %s | %s | %s | %s | %s |\n" % r)
print(open("/verif/seeded/MATRIX.md").read()[:600])
